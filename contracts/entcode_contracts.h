/* Contracts for the range coder: celt/entenc.c, celt/entdec.c, celt/entcode.c (C08, C05, C01).
 * Written on declarations; the real bodies are #included verbatim by the proof TU. */
#ifndef VERIF_ENTCODE_CONTRACTS_H
#define VERIF_ENTCODE_CONTRACTS_H
#include "common.h"
#include "opus_types.h"
#include "entcode.h"
#include "entenc.h"
#include "entdec.h"
#include "mfrngcod.h"

int verif_icdf_n;   /* ghost: number of entries of the ICDF table handed to ec_dec_icdf */
#define TWO23 (1U<<23)
#define TWO31 (1U<<31)

/* ---- representation invariants ---------------------------------------------------------- */
/* encoder: bytes written from the front (offs) and the back (end_offs) never overlap,
   the range is normalised, low end + range does not wrap (a wrap would be a lost carry) */
#define RI_ENC(e) ((e)->storage <= (1U<<30) && (e)->offs <= (e)->storage && (e)->end_offs <= (e)->storage - (e)->offs && \
   -1 <= (e)->rem && (e)->rem <= 255 && 0 <= (e)->nend_bits && (e)->nend_bits <= 32 && \
   (e)->rng > TWO23 && (e)->rng <= TWO31 && (unsigned long long)(e)->val + (e)->rng <= (1ULL<<32) && \
   0 <= (e)->nbits_total && (e)->nbits_total < (1<<28) && ((e)->error == 0 || (e)->error == -1) && (e)->ext < (1U<<30) && \
   (((e)->rem < 0 && (e)->ext == 0) ==> ((e)->offs == 0 && (unsigned long long)(e)->val + (e)->rng <= (1ULL<<31))))

#define RI_DEC(d) ((d)->storage <= (1U<<30) && (d)->offs <= (d)->storage && (d)->end_offs <= (d)->storage && \
   0 <= (d)->rem && (d)->rem <= 255 && 0 <= (d)->nend_bits && (d)->nend_bits <= 32 && \
   (d)->rng > TWO23 && (d)->rng <= TWO31 && (d)->val < (d)->rng && \
   0 <= (d)->nbits_total && (d)->nbits_total < (1<<28))

/* the part of RI_ENC that the byte-output helpers need (rng may be un-normalised in the middle of an operation) */
#define RI_ENC_OUT(e) ((e)->storage <= (1U<<30) && (e)->offs <= (e)->storage && (e)->end_offs <= (e)->storage - (e)->offs && \
   -1 <= (e)->rem && (e)->rem <= 255 && ((e)->error == 0 || (e)->error == -1) && (e)->ext < (1U<<30))

/* ---- specification functions shared by encoder and decoder contracts --------------------- */
/* number of renormalisation steps for a range r in [1, 2^31] */
#define SPEC_NSH(r)   ((r) > TWO23 ? 0 : (r) > (1U<<15) ? 1 : (r) > (1U<<7) ? 2 : 3)
#define SPEC_NORM(r)  ((opus_uint32)(r) << (8*SPEC_NSH(r)))
/* new range after coding [fl,fh) out of ft with scale factor r = rng/ft (or rng>>bits) */
#define SPEC_RNG(rng, r, fl, fh, ft) ((fl) > 0 ? (opus_uint32)((r)*((fh)-(fl))) : (opus_uint32)((rng) - (r)*((ft)-(fh))))
/* bit with probability 2^-logp of being one */
#define SPEC_RNG_BIT(rng, v, logp)   ((v) ? ((rng)>>(logp)) : ((rng) - ((rng)>>(logp))))

/* frame of every encoder operation */
#define ENC_BUF(e) __CPROVER_object_whole((e)->buf)
#define ENC_FRAME(e) (e)->val, (e)->rng, (e)->nbits_total, (e)->rem, (e)->ext, (e)->offs, (e)->error, ENC_BUF(e)
/* storage >= 1: a zero-length coder buffer is not modelled (recorded assumption) */
#define ENC_FRESH(e) (__CPROVER_is_fresh(e, sizeof(*e)) && 1 <= (e)->storage && (e)->storage <= (1U<<30) && __CPROVER_is_fresh((e)->buf, (e)->storage))
#define DEC_FRESH(d) ENC_FRESH(d)
#define ENC_UNCHANGED_TAIL(e) ((e)->buf == __CPROVER_old((e)->buf) && (e)->storage == __CPROVER_old((e)->storage) && \
   (e)->end_offs == __CPROVER_old((e)->end_offs) && (e)->end_window == __CPROVER_old((e)->end_window) && \
   (e)->nend_bits == __CPROVER_old((e)->nend_bits))

/* ---- encoder ------------------------------------------------------------------------------ */
static int ec_write_byte(ec_enc *_this, unsigned _value)
__CPROVER_requires(ENC_FRESH(_this) && _this->offs <= _this->storage && _this->end_offs <= _this->storage - _this->offs)
__CPROVER_assigns(_this->offs, ENC_BUF(_this))
__CPROVER_ensures(__CPROVER_return_value == 0 || __CPROVER_return_value == -1)
__CPROVER_ensures(__CPROVER_return_value == -1 <==> __CPROVER_old(_this->offs) + _this->end_offs >= _this->storage)
__CPROVER_ensures(__CPROVER_return_value == -1 ==> _this->offs == __CPROVER_old(_this->offs))
__CPROVER_ensures(__CPROVER_return_value == 0 ==> (_this->offs == __CPROVER_old(_this->offs) + 1 &&
                  _this->buf[_this->offs - 1] == (unsigned char)_value))
__CPROVER_ensures(_this->offs <= _this->storage && _this->end_offs <= _this->storage - _this->offs)
;

static int ec_write_byte_at_end(ec_enc *_this, unsigned _value)
__CPROVER_requires(ENC_FRESH(_this) && _this->offs <= _this->storage && _this->end_offs <= _this->storage - _this->offs)
__CPROVER_assigns(_this->end_offs, ENC_BUF(_this))
__CPROVER_ensures(__CPROVER_return_value == 0 || __CPROVER_return_value == -1)
__CPROVER_ensures(__CPROVER_return_value == -1 <==> _this->offs + __CPROVER_old(_this->end_offs) >= _this->storage)
__CPROVER_ensures(__CPROVER_return_value == -1 ==> _this->end_offs == __CPROVER_old(_this->end_offs))
__CPROVER_ensures(__CPROVER_return_value == 0 ==> (_this->end_offs == __CPROVER_old(_this->end_offs) + 1 &&
                  _this->buf[_this->storage - _this->end_offs] == (unsigned char)_value))
__CPROVER_ensures(_this->offs <= _this->storage && _this->end_offs <= _this->storage - _this->offs)
;

/* carry_out: _c is a 9-bit symbol+carry; rem<0 only before the first symbol */
static void ec_enc_carry_out(ec_enc *_this, int _c)
__CPROVER_requires(ENC_FRESH(_this) && RI_ENC_OUT(_this) && 0 <= _c && _c <= 511)
__CPROVER_assigns(_this->rem, _this->ext, _this->offs, _this->error, ENC_BUF(_this))
__CPROVER_ensures(_this->offs <= _this->storage && _this->end_offs <= _this->storage - _this->offs)
__CPROVER_ensures(-1 <= _this->rem && _this->rem <= 255 && (_this->error == 0 || _this->error == -1))
__CPROVER_ensures(_this->offs >= __CPROVER_old(_this->offs))
__CPROVER_ensures(__CPROVER_old(_this->error) == -1 ==> _this->error == -1)
__CPROVER_ensures(_c == 255 ==> (_this->ext == __CPROVER_old(_this->ext) + 1 && _this->rem == __CPROVER_old(_this->rem) &&
                  _this->offs == __CPROVER_old(_this->offs) && _this->error == __CPROVER_old(_this->error)))
__CPROVER_ensures(_c != 255 ==> (_this->ext == 0 && _this->rem == (_c & 255)))
/* bytes flushed: the buffered byte (if any) plus every pending 0xFF symbol, unless the buffer is full */
__CPROVER_ensures((_c != 255 && _this->error == 0) ==>
      _this->offs == __CPROVER_old(_this->offs) + (__CPROVER_old(_this->rem) >= 0 ? 1 : 0) + __CPROVER_old(_this->ext))
__CPROVER_ensures(_this->ext < (1U<<30) || _c == 255)
;

#undef  OPUS_VERIF_LOOP_enc_carry_ext
#define OPUS_VERIF_LOOP_enc_carry_ext \
  __CPROVER_assigns(_this->error, _this->offs, _this->ext, ENC_BUF(_this)) \
  __CPROVER_loop_invariant(_this->ext > 0 && _this->ext <= __CPROVER_loop_entry(_this->ext)) \
  __CPROVER_loop_invariant(_this->offs <= _this->storage && _this->end_offs <= _this->storage - _this->offs) \
  __CPROVER_loop_invariant(_this->offs >= __CPROVER_loop_entry(_this->offs)) \
  __CPROVER_loop_invariant(_this->error == 0 || _this->error == -1) \
  __CPROVER_loop_invariant(__CPROVER_loop_entry(_this->error) == -1 ==> _this->error == -1) \
  __CPROVER_loop_invariant(_this->error == 0 ==> (__CPROVER_loop_entry(_this->error) == 0 && \
        _this->offs - __CPROVER_loop_entry(_this->offs) == __CPROVER_loop_entry(_this->ext) - _this->ext)) \
  __CPROVER_decreases(_this->ext)


/* normalize: at most 3 steps because rng >= 1; needs val+rng <= 2^32 so that the 9-bit carry symbol is exact */
static void ec_enc_normalize(ec_enc *_this)
__CPROVER_requires(ENC_FRESH(_this) && _this->offs <= _this->storage && _this->end_offs <= _this->storage - _this->offs)
__CPROVER_requires(-1 <= _this->rem && _this->rem <= 255 && (_this->error == 0 || _this->error == -1) && _this->ext < (1U<<30) - 4)
__CPROVER_requires(_this->rng >= 1 && _this->rng <= TWO31 && (unsigned long long)_this->val + _this->rng <= (1ULL<<32))
__CPROVER_requires(0 <= _this->nbits_total && _this->nbits_total < (1<<28) - 32 && 0 <= _this->nend_bits && _this->nend_bits <= 32)
__CPROVER_requires((_this->rem < 0 && _this->ext == 0) ==> (_this->offs == 0 && (unsigned long long)_this->val + _this->rng <= (1ULL<<31)))
__CPROVER_assigns(ENC_FRAME(_this))
__CPROVER_ensures(RI_ENC(_this))
__CPROVER_ensures(_this->rng == SPEC_NORM(__CPROVER_old(_this->rng)))
__CPROVER_ensures(_this->nbits_total == __CPROVER_old(_this->nbits_total) + 8*SPEC_NSH(__CPROVER_old(_this->rng)))
__CPROVER_ensures(ENC_UNCHANGED_TAIL(_this) && _this->offs >= __CPROVER_old(_this->offs))
__CPROVER_ensures(__CPROVER_old(_this->error) == -1 ==> _this->error == -1)
__CPROVER_ensures(_this->ext <= __CPROVER_old(_this->ext) + 3)
;

/* case split of the table-driven operations by the (constant) precision: a group built with -DVERIF_FTB=k enforces the
   contract for _ftb/_bits == k only; the union of the groups k = 1..max is the contract (each multiplication then has a
   fixed operand width, which is what lets the SAT back end decide the range facts) */
#ifdef VERIF_FTB
#define VERIF_FTB_CASE(x) ((x) == VERIF_FTB)
#else
#define VERIF_FTB_CASE(x) 1
#endif

/* head-room for the carry counter and the bit counter: k primitive operations */
#define ENC_SLACK(e,k) ((e)->ext < (1U<<30) - 4*(k) && (e)->nbits_total < (1<<28) - 32*(k))
#define ENC_OP_REQUIRES(e) (ENC_FRESH(e) && RI_ENC(e) && ENC_SLACK(e,1))
#define ENC_OP_ENSURES(e) (RI_ENC(e) && ENC_UNCHANGED_TAIL(e) && (e)->offs >= __CPROVER_old((e)->offs) && \
     (__CPROVER_old((e)->error) == -1 ==> (e)->error == -1) && (e)->ext <= __CPROVER_old((e)->ext) + 3 && \
     (e)->nbits_total <= __CPROVER_old((e)->nbits_total) + 24 && (e)->nbits_total >= __CPROVER_old((e)->nbits_total))

void ec_encode(ec_enc *_this, unsigned _fl, unsigned _fh, unsigned _ft)
__CPROVER_requires(ENC_OP_REQUIRES(_this) && _fl < _fh && _fh <= _ft && _ft <= (1U<<16))
__CPROVER_assigns(ENC_FRAME(_this))
__CPROVER_ensures(ENC_OP_ENSURES(_this))
__CPROVER_ensures(_this->rng == SPEC_NORM(SPEC_RNG(__CPROVER_old(_this->rng), __CPROVER_old(_this->rng)/_ft, _fl, _fh, _ft)))
__CPROVER_ensures(_this->nbits_total == __CPROVER_old(_this->nbits_total) +
                  8*SPEC_NSH(SPEC_RNG(__CPROVER_old(_this->rng), __CPROVER_old(_this->rng)/_ft, _fl, _fh, _ft)))
;

void ec_encode_bin(ec_enc *_this, unsigned _fl, unsigned _fh, unsigned _bits)
__CPROVER_requires(ENC_OP_REQUIRES(_this) && 1 <= _bits && _bits <= 16 && _fl < _fh && _fh <= (1U<<_bits) && VERIF_FTB_CASE(_bits))
__CPROVER_assigns(ENC_FRAME(_this))
__CPROVER_ensures(ENC_OP_ENSURES(_this))
__CPROVER_ensures(_this->rng == SPEC_NORM(SPEC_RNG(__CPROVER_old(_this->rng), __CPROVER_old(_this->rng)>>_bits, _fl, _fh, (1U<<_bits))))
__CPROVER_ensures(_this->nbits_total == __CPROVER_old(_this->nbits_total) +
                  8*SPEC_NSH(SPEC_RNG(__CPROVER_old(_this->rng), __CPROVER_old(_this->rng)>>_bits, _fl, _fh, (1U<<_bits))))
;

void ec_enc_bit_logp(ec_enc *_this, int _val, unsigned _logp)
__CPROVER_requires(ENC_OP_REQUIRES(_this) && 1 <= _logp && _logp <= 16)
__CPROVER_assigns(ENC_FRAME(_this))
__CPROVER_ensures(ENC_OP_ENSURES(_this))
__CPROVER_ensures(_this->rng == SPEC_NORM(SPEC_RNG_BIT(__CPROVER_old(_this->rng), _val != 0, _logp)))
__CPROVER_ensures(_this->nbits_total == __CPROVER_old(_this->nbits_total) + 8*SPEC_NSH(SPEC_RNG_BIT(__CPROVER_old(_this->rng), _val != 0, _logp)))
;

/* ICDF tables: non-increasing, entries < 2^ftb (first) and the symbol's interval non-empty */
void ec_enc_icdf(ec_enc *_this, int _s, const unsigned char *_icdf, unsigned _ftb)
__CPROVER_requires(ENC_OP_REQUIRES(_this) && 1 <= _ftb && _ftb <= 8 && 0 <= _s && _s < 256 && __CPROVER_is_fresh(_icdf, _s + 1) && VERIF_FTB_CASE(_ftb))
__CPROVER_requires(_s > 0 ? (_icdf[_s-1] > _icdf[_s] && _icdf[_s-1] <= (1U<<_ftb)) : (_icdf[0] < (1U<<_ftb)))
__CPROVER_assigns(ENC_FRAME(_this))
__CPROVER_ensures(ENC_OP_ENSURES(_this))
__CPROVER_ensures(_this->rng == SPEC_NORM(SPEC_RNG(__CPROVER_old(_this->rng), __CPROVER_old(_this->rng)>>_ftb,
                  (_s > 0 ? (1U<<_ftb) - _icdf[_s-1] : 0), (1U<<_ftb) - _icdf[_s], (1U<<_ftb))))
;

void ec_enc_icdf16(ec_enc *_this, int _s, const opus_uint16 *_icdf, unsigned _ftb)
__CPROVER_requires(ENC_OP_REQUIRES(_this) && 1 <= _ftb && _ftb <= 15 && 0 <= _s && _s < 65536 && __CPROVER_is_fresh(_icdf, 2*(_s + 1)) && VERIF_FTB_CASE(_ftb))
__CPROVER_requires(_s > 0 ? (_icdf[_s-1] > _icdf[_s] && _icdf[_s-1] <= (1U<<_ftb)) : (_icdf[0] < (1U<<_ftb)))
__CPROVER_assigns(ENC_FRAME(_this))
__CPROVER_ensures(ENC_OP_ENSURES(_this))
__CPROVER_ensures(_this->rng == SPEC_NORM(SPEC_RNG(__CPROVER_old(_this->rng), __CPROVER_old(_this->rng)>>_ftb,
                  (_s > 0 ? (1U<<_ftb) - _icdf[_s-1] : 0), (1U<<_ftb) - _icdf[_s], (1U<<_ftb))))
;

/* raw bits at the end of the buffer */
void ec_enc_bits(ec_enc *_this, opus_uint32 _fl, unsigned _bits)
__CPROVER_requires(ENC_OP_REQUIRES(_this) && 1 <= _bits && _bits <= 25 && _fl < (1U<<_bits))
__CPROVER_assigns(_this->end_window, _this->nend_bits, _this->nbits_total, _this->end_offs, _this->error, ENC_BUF(_this))
__CPROVER_ensures(RI_ENC(_this) && _this->nbits_total == __CPROVER_old(_this->nbits_total) + (int)_bits)
__CPROVER_ensures(_this->end_offs >= __CPROVER_old(_this->end_offs) && _this->end_offs <= __CPROVER_old(_this->end_offs) + 4)
__CPROVER_ensures(__CPROVER_old(_this->error) == -1 ==> _this->error == -1)
__CPROVER_ensures(_this->rng == __CPROVER_old(_this->rng) && _this->val == __CPROVER_old(_this->val) && _this->offs == __CPROVER_old(_this->offs))
;

void ec_enc_uint(ec_enc *_this, opus_uint32 _fl, opus_uint32 _ft)
__CPROVER_requires(ENC_FRESH(_this) && RI_ENC(_this) && ENC_SLACK(_this,2) && _ft >= 2 && _fl < _ft)
__CPROVER_assigns(_this->end_window, _this->nend_bits, _this->end_offs, ENC_FRAME(_this))
__CPROVER_ensures(RI_ENC(_this) && _this->buf == __CPROVER_old(_this->buf) && _this->storage == __CPROVER_old(_this->storage))
__CPROVER_ensures(_this->offs >= __CPROVER_old(_this->offs) && _this->end_offs >= __CPROVER_old(_this->end_offs))
__CPROVER_ensures(__CPROVER_old(_this->error) == -1 ==> _this->error == -1)
__CPROVER_ensures(_this->nbits_total >= __CPROVER_old(_this->nbits_total))
;

void ec_enc_patch_initial_bits(ec_enc *_this, unsigned _val, unsigned _nbits)
__CPROVER_requires(ENC_OP_REQUIRES(_this) && _nbits <= 8 && _val < (1U<<_nbits))
/* documented caller obligation ("at least _nbits bits must have already been encoded using probabilities that are an
   exact power of two"): when nothing was renormalised yet, the interval lies inside one 2^(31-nbits)-aligned cell */
__CPROVER_requires((_this->offs == 0 && _this->rem < 0 && _this->ext == 0 && _this->rng <= (TWO31 >> _nbits)) ==>
      (unsigned long long)(_this->val & ((TWO31 >> _nbits) - 1)) + _this->rng <= (TWO31 >> _nbits))
__CPROVER_assigns(_this->val, _this->rem, _this->error, __CPROVER_object_upto(_this->buf, 1))
__CPROVER_ensures(RI_ENC(_this))
__CPROVER_ensures(_this->rng == __CPROVER_old(_this->rng) && _this->nbits_total == __CPROVER_old(_this->nbits_total))
__CPROVER_ensures(__CPROVER_old(_this->error) == -1 ==> _this->error == -1)
/* the first byte is a buffered 0xFF awaiting carry propagation: it cannot be patched, and nothing else may be patched in its place */
__CPROVER_ensures((__CPROVER_old(_this->offs) == 0 && __CPROVER_old(_this->rem) < 0 && __CPROVER_old(_this->ext) > 0) ==> (_this->error == -1 && _this->val == __CPROVER_old(_this->val)))
/* which location carries the patch */
__CPROVER_ensures((__CPROVER_old(_this->offs) > 0 || __CPROVER_old(_this->rem) >= 0) ==> _this->val == __CPROVER_old(_this->val))
__CPROVER_ensures((__CPROVER_old(_this->offs) == 0 && __CPROVER_old(_this->rem) >= 0 && __CPROVER_old(_this->error) == 0) ==> (_this->error == 0 && (_this->rem >> (8 - _nbits)) == (int)_val) || _nbits == 0)
;

void ec_enc_shrink(ec_enc *_this, opus_uint32 _size)
__CPROVER_requires(ENC_OP_REQUIRES(_this) && _size <= _this->storage && _this->offs + _this->end_offs <= _size)
__CPROVER_assigns(_this->storage, ENC_BUF(_this))
__CPROVER_ensures(RI_ENC(_this) && _this->storage == _size)
;

/* ghost (assigned only through the hook OPUS_VERIF_GHOST(enc_done_end)): the termination value ec_enc_done settled on,
   its don't-care mask and the number of bits it will emit */
opus_uint32 verif_done_end, verif_done_msk; int verif_done_l;
#undef  OPUS_VERIF_GHOST_enc_done_end
#define OPUS_VERIF_GHOST_enc_done_end verif_done_end = end; verif_done_msk = msk; verif_done_l = l;

void ec_enc_done(ec_enc *_this)
__CPROVER_requires(ENC_OP_REQUIRES(_this))
__CPROVER_assigns(_this->end_offs, ENC_FRAME(_this), verif_done_end, verif_done_msk, verif_done_l)
/* termination: every code value that starts with the emitted bits lies inside the final interval [val, val+rng):
   "the symbols encoded thus far will be decoded correctly regardless of the bits that follow" */
__CPROVER_ensures(__CPROVER_old(_this->val) <= verif_done_end && (verif_done_end & verif_done_msk) == 0)
__CPROVER_ensures((unsigned long long)(verif_done_end | verif_done_msk) < (unsigned long long)__CPROVER_old(_this->val) + __CPROVER_old(_this->rng))
__CPROVER_ensures(0 <= verif_done_l && verif_done_l <= 9 && verif_done_msk == ((1U << 31) - 1) >> verif_done_l)
__CPROVER_ensures(_this->offs <= _this->storage && _this->end_offs <= _this->storage - _this->offs)
__CPROVER_ensures(_this->error == 0 || _this->error == -1)
__CPROVER_ensures(__CPROVER_old(_this->error) == -1 ==> _this->error == -1)
__CPROVER_ensures(_this->buf == __CPROVER_old(_this->buf) && _this->storage == __CPROVER_old(_this->storage))
/* everything buffered for carry propagation has been pushed to the byte output (written, or the error flag raised) */
__CPROVER_ensures(_this->ext == 0)
__CPROVER_ensures((__CPROVER_old(_this->rem) >= 0 || __CPROVER_old(_this->ext) > 0) ==> _this->rem >= 0)
__CPROVER_ensures((_this->error == 0 && (__CPROVER_old(_this->rem) >= 0 || __CPROVER_old(_this->ext) > 0)) ==> _this->offs > __CPROVER_old(_this->offs))
;

void ec_enc_init(ec_enc *_this, unsigned char *_buf, opus_uint32 _size)
__CPROVER_requires(__CPROVER_is_fresh(_this, sizeof(*_this)) && 1 <= _size && _size <= (1U<<30) && __CPROVER_is_fresh(_buf, _size))
__CPROVER_assigns(*_this)
__CPROVER_ensures(RI_ENC(_this) && _this->buf == _buf && _this->storage == _size && _this->offs == 0 && _this->end_offs == 0 &&
                  _this->error == 0 && _this->rng == TWO31 && _this->nbits_total == 33)
;

/* ---- decoder ------------------------------------------------------------------------------ */
#define DEC_FRAME(d) (d)->val, (d)->rng, (d)->nbits_total, (d)->rem, (d)->offs
#define DEC_UNCHANGED(d) ((d)->buf == __CPROVER_old((d)->buf) && (d)->storage == __CPROVER_old((d)->storage) && \
   (d)->end_offs == __CPROVER_old((d)->end_offs) && (d)->end_window == __CPROVER_old((d)->end_window) && \
   (d)->nend_bits == __CPROVER_old((d)->nend_bits) && (d)->error == __CPROVER_old((d)->error))
#define DEC_OP_REQUIRES(d) (DEC_FRESH(d) && RI_DEC(d) && (d)->nbits_total < (1<<28) - 64)
#define DEC_OP_ENSURES(d) (RI_DEC(d) && DEC_UNCHANGED(d) && (d)->offs >= __CPROVER_old((d)->offs) && \
   (d)->nbits_total >= __CPROVER_old((d)->nbits_total) && (d)->nbits_total <= __CPROVER_old((d)->nbits_total) + 24)

/* reads never leave buf[0..storage): zero is returned instead (RFC 6716 4.1.1) */
static int ec_read_byte(ec_dec *_this)
__CPROVER_requires(DEC_FRESH(_this) && _this->offs <= _this->storage)
__CPROVER_assigns(_this->offs)
__CPROVER_ensures(0 <= __CPROVER_return_value && __CPROVER_return_value <= 255 && _this->offs <= _this->storage)
__CPROVER_ensures(__CPROVER_old(_this->offs) < _this->storage ?
      (_this->offs == __CPROVER_old(_this->offs) + 1 && __CPROVER_return_value == _this->buf[__CPROVER_old(_this->offs)]) :
      (_this->offs == __CPROVER_old(_this->offs) && __CPROVER_return_value == 0))
;

static int ec_read_byte_from_end(ec_dec *_this)
__CPROVER_requires(DEC_FRESH(_this) && _this->end_offs <= _this->storage)
__CPROVER_assigns(_this->end_offs)
__CPROVER_ensures(0 <= __CPROVER_return_value && __CPROVER_return_value <= 255 && _this->end_offs <= _this->storage)
__CPROVER_ensures(__CPROVER_old(_this->end_offs) < _this->storage ?
      (_this->end_offs == __CPROVER_old(_this->end_offs) + 1 && __CPROVER_return_value == _this->buf[_this->storage - _this->end_offs]) :
      (_this->end_offs == __CPROVER_old(_this->end_offs) && __CPROVER_return_value == 0))
;

/* normalize: rng >= 1 on entry; the same SPEC_NORM / SPEC_NSH as the encoder => lock-step */
static void ec_dec_normalize(ec_dec *_this)
__CPROVER_requires(DEC_FRESH(_this) && _this->offs <= _this->storage && 0 <= _this->rem && _this->rem <= 255)
__CPROVER_requires(_this->rng >= 1 && _this->rng <= TWO31 && _this->val < _this->rng)
__CPROVER_requires(0 <= _this->nbits_total && _this->nbits_total < (1<<28) - 32)
__CPROVER_assigns(DEC_FRAME(_this))
__CPROVER_ensures(_this->rng == SPEC_NORM(__CPROVER_old(_this->rng)) && _this->rng > TWO23 && _this->rng <= TWO31)
__CPROVER_ensures(_this->nbits_total == __CPROVER_old(_this->nbits_total) + 8*SPEC_NSH(__CPROVER_old(_this->rng)))
__CPROVER_ensures(_this->val < _this->rng && 0 <= _this->rem && _this->rem <= 255)
__CPROVER_ensures(_this->offs <= _this->storage && _this->offs >= __CPROVER_old(_this->offs))
;

int ec_dec_bit_logp(ec_dec *_this, unsigned _logp)
__CPROVER_requires(DEC_OP_REQUIRES(_this) && 1 <= _logp && _logp <= 16)
__CPROVER_assigns(DEC_FRAME(_this))
__CPROVER_ensures(DEC_OP_ENSURES(_this))
__CPROVER_ensures(__CPROVER_return_value == 0 || __CPROVER_return_value == 1)
__CPROVER_ensures(__CPROVER_return_value == (__CPROVER_old(_this->val) < (__CPROVER_old(_this->rng) >> _logp)))
__CPROVER_ensures(_this->rng == SPEC_NORM(SPEC_RNG_BIT(__CPROVER_old(_this->rng), __CPROVER_return_value, _logp)))
__CPROVER_ensures(_this->nbits_total == __CPROVER_old(_this->nbits_total) + 8*SPEC_NSH(SPEC_RNG_BIT(__CPROVER_old(_this->rng), __CPROVER_return_value, _logp)))
;

opus_uint32 ec_dec_bits(ec_dec *_this, unsigned _bits)
__CPROVER_requires(DEC_OP_REQUIRES(_this) && 1 <= _bits && _bits <= 25)
__CPROVER_assigns(_this->end_window, _this->nend_bits, _this->nbits_total, _this->end_offs)
__CPROVER_ensures(RI_DEC(_this) && __CPROVER_return_value < (1U << _bits))
__CPROVER_ensures(_this->nbits_total == __CPROVER_old(_this->nbits_total) + (int)_bits)
__CPROVER_ensures(_this->end_offs >= __CPROVER_old(_this->end_offs) && _this->end_offs <= __CPROVER_old(_this->end_offs) + 4)
;

void ec_dec_init(ec_dec *_this, unsigned char *_buf, opus_uint32 _storage)
__CPROVER_requires(__CPROVER_is_fresh(_this, sizeof(*_this)) && 1 <= _storage && _storage <= (1U<<30) && __CPROVER_is_fresh(_buf, _storage))
__CPROVER_assigns(*_this)
__CPROVER_ensures(RI_DEC(_this) && _this->buf == _buf && _this->storage == _storage && _this->end_offs == 0 && _this->error == 0)
/* same initial range and bit count as ec_enc_init: base case of the lock-step relation */
__CPROVER_ensures(_this->rng == TWO31 && _this->nbits_total == 33)
;

/* table look-up: the table must end in 0 before entry _n; then the loop terminates inside the table */
int ec_dec_icdf(ec_dec *_this, const unsigned char *_icdf, unsigned _ftb)
__CPROVER_requires(DEC_OP_REQUIRES(_this) && 1 <= _ftb && _ftb <= 8 && 1 <= verif_icdf_n && verif_icdf_n <= 256 && VERIF_FTB_CASE(_ftb))
__CPROVER_requires(__CPROVER_is_fresh(_icdf, verif_icdf_n) && _icdf[verif_icdf_n - 1] == 0 && _icdf[0] <= (1U<<_ftb) - 1)
__CPROVER_requires(__CPROVER_forall { int t1; (0 <= t1 && t1 < 255) ==> (t1 + 1 < verif_icdf_n ==> _icdf[t1] >= _icdf[t1+1]) })
__CPROVER_assigns(DEC_FRAME(_this))
__CPROVER_ensures(DEC_OP_ENSURES(_this))
__CPROVER_ensures(0 <= __CPROVER_return_value && __CPROVER_return_value < verif_icdf_n)
__CPROVER_ensures(_this->rng == SPEC_NORM(SPEC_RNG(__CPROVER_old(_this->rng), __CPROVER_old(_this->rng)>>_ftb,
      (__CPROVER_return_value > 0 ? (1U<<_ftb) - _icdf[__CPROVER_return_value-1] : 0), (1U<<_ftb) - _icdf[__CPROVER_return_value], (1U<<_ftb))))
;

#undef  OPUS_VERIF_LOOP_dec_icdf
#define OPUS_VERIF_LOOP_dec_icdf \
  __CPROVER_assigns(t, s, ret) \
  __CPROVER_loop_invariant(-1 <= ret && ret < verif_icdf_n - 1 && d < s && s <= _this->rng) \
  __CPROVER_loop_invariant(ret >= 0 ==> s == r * _icdf[ret]) \
  __CPROVER_loop_invariant(ret < 0 ==> s == _this->rng) \
  __CPROVER_decreases(verif_icdf_n - ret)
#endif
