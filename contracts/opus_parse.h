/* Contracts for src/opus.c: packet parser (C06, used by C01/C07/C10).
 * Written on declarations; the real bodies come from #include "/repo/src/opus.c". */
#ifndef VERIF_OPUS_PARSE_H
#define VERIF_OPUS_PARSE_H
#include "common.h"
#include "opus_types.h"

/* ---- RFC 6716 section 3.1 TOC table, transcribed from the RFC text (not from opus.c) ----
 * config = toc>>3.  Frame duration in units of 2.5 ms * 1 (i.e. samples at 400 Hz):
 *   0..11  SILK   : 10,20,40,60 ms        -> 4,8,16,24
 *   12..15 hybrid : 10,20 ms              -> 4,8
 *   16..31 CELT   : 2.5,5,10,20 ms        -> 1,2,4,8                                  */
#define RFC_CFG(toc)      (((toc) >> 3) & 31)
#define RFC_DUR400(toc)   (RFC_CFG(toc) < 12 ? (((RFC_CFG(toc) & 3) == 0) ? 4 : ((RFC_CFG(toc) & 3) == 1) ? 8 : ((RFC_CFG(toc) & 3) == 2) ? 16 : 24) \
                           : RFC_CFG(toc) < 16 ? (((RFC_CFG(toc) & 1) == 0) ? 4 : 8) \
                           : (((RFC_CFG(toc) & 3) == 0) ? 1 : ((RFC_CFG(toc) & 3) == 1) ? 2 : ((RFC_CFG(toc) & 3) == 2) ? 4 : 8))
/* samples per frame at 48 kHz: 120 samples per 2.5 ms */
#define RFC_SPF48(toc)    (120 * RFC_DUR400(toc))
#define RFC_CODE(toc)     ((toc) & 3)

/* ghost state of the parser proof (assigned only through OPUS_VERIF_GHOST hooks) */
int verif_G[49];                      /* prefix sums of size[]            */
const unsigned char *verif_hdr;       /* start of the first frame         */
int verif_len0;                       /* len on entry                     */
int verif_K;                          /* arbitrary frame index (ghost, chosen by the harness) */

#ifndef VERIF_PARSE_CASE
#define VERIF_PARSE_CASE(data, len, sd) 1
#endif

int opus_packet_parse_impl(const unsigned char *data, opus_int32 len,
      int self_delimited, unsigned char *out_toc,
      const unsigned char *frames[48], opus_int16 size[48],
      int *payload_offset, opus_int32 *packet_offset,
      const unsigned char **padding, opus_int32 *padding_len)
__CPROVER_requires(len <= 0 || __CPROVER_is_fresh(data, len))
__CPROVER_requires(size == NULL || __CPROVER_is_fresh(size, 48 * sizeof(opus_int16)))
__CPROVER_requires(frames == NULL || __CPROVER_is_fresh(frames, 48 * sizeof(const unsigned char *)))
__CPROVER_requires(out_toc == NULL || __CPROVER_is_fresh(out_toc, 1))
__CPROVER_requires(payload_offset == NULL || __CPROVER_is_fresh(payload_offset, sizeof(int)))
__CPROVER_requires(packet_offset == NULL || __CPROVER_is_fresh(packet_offset, sizeof(opus_int32)))
__CPROVER_requires(padding == NULL || (__CPROVER_is_fresh(padding, sizeof(*padding)) && __CPROVER_is_fresh(padding_len, sizeof(opus_int32))))
__CPROVER_requires(verif_G[0] == 0)
__CPROVER_requires(0 <= verif_K && verif_K < 48)
__CPROVER_requires(VERIF_PARSE_CASE(data, len, self_delimited))
__CPROVER_assigns(size != NULL: __CPROVER_object_whole(size))
__CPROVER_assigns(frames != NULL: __CPROVER_object_whole(frames))
__CPROVER_assigns(out_toc != NULL: *out_toc)
__CPROVER_assigns(payload_offset != NULL: *payload_offset)
__CPROVER_assigns(packet_offset != NULL: *packet_offset)
__CPROVER_assigns(padding != NULL: *padding, *padding_len)
__CPROVER_assigns(__CPROVER_object_whole(verif_G), verif_hdr, verif_len0)
/* E1 argument errors */
__CPROVER_ensures((size == NULL || len < 0) ==> __CPROVER_return_value == -1)
__CPROVER_ensures((size != NULL && len == 0) ==> __CPROVER_return_value == -4)
/* E2 result range */
__CPROVER_ensures(__CPROVER_return_value == -1 || __CPROVER_return_value == -4 ||
                  (1 <= __CPROVER_return_value && __CPROVER_return_value <= 48))
__CPROVER_ensures(__CPROVER_return_value == -1 ==> (size == NULL || len < 0))
/* E3 frame count is the one the TOC code / count byte announces (R1, R5) */
__CPROVER_ensures(__CPROVER_return_value > 0 ==>
      __CPROVER_return_value == (RFC_CODE(data[0]) == 0 ? 1 : RFC_CODE(data[0]) < 3 ? 2 : (data[1] & 0x3F)))
/* E4 at most 120 ms (R5) */
__CPROVER_ensures(__CPROVER_return_value > 0 ==> __CPROVER_return_value * RFC_SPF48(data[0]) <= 5760)
/* E5 every frame 0..1275 bytes (R2) */
__CPROVER_ensures(__CPROVER_return_value > 0 ==>
      __CPROVER_forall { int k1; (0 <= k1 && k1 < 48) ==> (k1 < __CPROVER_return_value ==> (0 <= size[k1] && size[k1] <= 1275)) })
/* E6 CBR codes: all frames equal (R3, R6) */
__CPROVER_ensures((__CPROVER_return_value > 0 && (RFC_CODE(data[0]) == 1 || (RFC_CODE(data[0]) == 3 && !(data[1] & 0x80)))) ==>
      __CPROVER_forall { int k2; (0 <= k2 && k2 < 48) ==> (k2 < __CPROVER_return_value ==> size[k2] == size[0]) })
/* E7 prefix sums (ghost) and frame pointers */
__CPROVER_ensures(__CPROVER_return_value > 0 ==> verif_G[0] == 0 &&
      __CPROVER_forall { int k3; (0 <= k3 && k3 < 48) ==> (k3 < __CPROVER_return_value ==> verif_G[k3+1] == verif_G[k3] + size[k3]) })
__CPROVER_ensures(__CPROVER_return_value > 0 ==> (__CPROVER_same_object(verif_hdr, data) && PO(verif_hdr) >= 1 + PO(data) &&
      PO(verif_hdr) + verif_G[__CPROVER_return_value] <= PO(data) + len))
__CPROVER_ensures((__CPROVER_return_value > 0 && frames != NULL && verif_K < __CPROVER_return_value) ==>
      frames[verif_K] == verif_hdr + verif_G[verif_K])   /* verif_K is an arbitrary index: stands for "for all k" */
__CPROVER_ensures((__CPROVER_return_value > 0 && payload_offset != NULL) ==> *payload_offset == PO(verif_hdr) - PO(data))
/* E8 padding and consumed length: every byte is TOC, header, frame or padding (R1-R7) */
__CPROVER_ensures((__CPROVER_return_value > 0 && padding != NULL) ==>
      (*padding == verif_hdr + verif_G[__CPROVER_return_value] && *padding_len >= 0 &&
       PO(*padding) + *padding_len <= PO(data) + len))
__CPROVER_ensures((__CPROVER_return_value > 0 && padding != NULL && RFC_CODE(data[0]) != 3) ==> *padding_len == 0)
__CPROVER_ensures((__CPROVER_return_value > 0 && padding != NULL && RFC_CODE(data[0]) == 3 && !(data[1] & 0x40)) ==> *padding_len == 0)
__CPROVER_ensures((__CPROVER_return_value > 0 && packet_offset != NULL) ==>
      (1 <= *packet_offset && *packet_offset <= len &&
       *packet_offset >= (PO(verif_hdr) - PO(data)) + verif_G[__CPROVER_return_value]))
__CPROVER_ensures((__CPROVER_return_value > 0 && packet_offset != NULL && padding != NULL) ==>
       *packet_offset == (PO(*padding) - PO(data)) + *padding_len)
__CPROVER_ensures((__CPROVER_return_value > 0 && packet_offset != NULL && !self_delimited) ==> *packet_offset == len)
/* E9 TOC */
__CPROVER_ensures((__CPROVER_return_value > 0 && out_toc != NULL) ==> *out_toc == data[0])
;

/* ---- loop contracts (expanded in place through the hooks in /repo/src/opus.c) ----
 * Every DFCC loop contract costs ~250k SAT variables (dynamic write-set checks), so each proof sub-case
 * switches on only the contracts of the loops it can reach: VERIF_PARSE_LC_PAD (padding chain, unbounded),
 * VERIF_PARSE_LC_VBR (VBR sizes, shape explosion when unwound).  Loops left without a contract are
 * pre-unwound with unwinding assertions on: a loop that is unreachable in the sub-case is unwound once and its
 * unwinding assertion proves exactly that; the CBR fill loops, the frames loop and the ghost prefix-sum loop
 * are constant-bounded (count <= 48) and unwound 49 times unless VERIF_PARSE_LC_SIMPLE is set. */
#undef  OPUS_VERIF_GHOST_parse_entry
#define OPUS_VERIF_GHOST_parse_entry verif_len0 = len;

#ifdef VERIF_PARSE_LC_PAD
#undef  OPUS_VERIF_LOOP_parse_pad
#define OPUS_VERIF_LOOP_parse_pad \
  __CPROVER_assigns(p, len, pad, data) \
  __CPROVER_loop_invariant(__CPROVER_same_object(data, data0) && PO(data) >= PO(data0) + 2) \
  __CPROVER_loop_invariant(pad >= 0 && len >= -254 && len <= verif_len0 - 2) \
  __CPROVER_loop_invariant((long long)len + pad + (PO(data) - PO(data0)) == (long long)verif_len0) \
  __CPROVER_loop_invariant((long long)pad <= 254 * (PO(data) - PO(data0) - 2))   /* each length byte adds at most 254: pad+tmp cannot overflow */ \
  __CPROVER_decreases(len)
#endif

#undef  OPUS_VERIF_GHOST_parse_vbr_step
#define OPUS_VERIF_GHOST_parse_vbr_step verif_G[i+1] = verif_G[i] + size[i];

#ifdef VERIF_PARSE_LC_VBR
#undef  OPUS_VERIF_LOOP_parse_vbr
#define OPUS_VERIF_LOOP_parse_vbr \
  __CPROVER_assigns(i, bytes, len, data, last_size, __CPROVER_object_whole(size), __CPROVER_object_whole(verif_G)) \
  __CPROVER_loop_invariant(0 <= i && i <= count-1 && count <= 48) \
  __CPROVER_loop_invariant(__CPROVER_same_object(data, data0) && PO(data) >= PO(data0) + 2) \
  __CPROVER_loop_invariant(len >= 0 && (long long)len + pad + (PO(data) - PO(data0)) == (long long)verif_len0) \
  __CPROVER_loop_invariant(verif_G[0] == 0 && 0 <= verif_G[i] && verif_G[i] <= 1275*i) \
  __CPROVER_loop_invariant((long long)last_size + verif_G[i] == len) \
  __CPROVER_loop_invariant(__CPROVER_forall { int j; (0 <= j && j < 48) ==> (j < i ==> (0 <= size[j] && size[j] <= 1275 && verif_G[j+1] == verif_G[j] + size[j])) }) \
  __CPROVER_decreases(count - i)
#endif

#ifdef VERIF_PARSE_LC_SIMPLE
#undef  OPUS_VERIF_LOOP_parse_cbr
#define OPUS_VERIF_LOOP_parse_cbr \
  __CPROVER_assigns(i, __CPROVER_object_whole(size)) \
  __CPROVER_loop_invariant(0 <= i && i <= count-1 && count <= 48) \
  __CPROVER_loop_invariant(__CPROVER_forall { int j; (0 <= j && j < 48) ==> (j < i ==> size[j] == (opus_int16)last_size) }) \
  __CPROVER_decreases(count - i)
#endif

#ifdef VERIF_PARSE_LC_SIMPLE
#undef  OPUS_VERIF_LOOP_parse_sd_cbr
#define OPUS_VERIF_LOOP_parse_sd_cbr \
  __CPROVER_assigns(i, __CPROVER_object_upto(size, (count-1)*sizeof(opus_int16))) \
  __CPROVER_loop_invariant(0 <= i && i <= count-1 && count <= 48) \
  __CPROVER_loop_invariant(__CPROVER_forall { int j; (0 <= j && j < 48) ==> (j < i ==> size[j] == size[count-1]) }) \
  __CPROVER_decreases(count - i)
#endif

/* before the frames loop: remember where the frames start and (re)build the prefix sums.
   The ghost loop is constant-bounded (48) and pre-unwound. */
#undef  OPUS_VERIF_GHOST_parse_pre_frames
#define OPUS_VERIF_GHOST_parse_pre_frames \
  verif_hdr = data; \
  if (!((toc&3)==3 && !cbr)) { int verif_gi; verif_G[0] = 0; for (verif_gi=0; verif_gi<count-1; verif_gi++) verif_G[verif_gi+1] = verif_G[verif_gi] + size[verif_gi]; } \
  verif_G[count] = verif_G[count-1] + size[count-1];

#ifdef VERIF_PARSE_LC_SIMPLE
#undef  OPUS_VERIF_LOOP_parse_frames
#define OPUS_VERIF_LOOP_parse_frames \
  __CPROVER_assigns(i, data; frames != NULL: __CPROVER_object_whole(frames)) \
  __CPROVER_loop_invariant(0 <= i && i <= count) \
  __CPROVER_loop_invariant(__CPROVER_same_object(data, data0) && PO(data) == PO(verif_hdr) + verif_G[i]) \
  __CPROVER_loop_invariant((frames != NULL && verif_K < i) ==> frames[verif_K] == verif_hdr + verif_G[verif_K]) \
  __CPROVER_decreases(count - i)
#endif

#endif
