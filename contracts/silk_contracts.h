/* Loop contracts / predicates for SILK side-information functions (C18). */
#ifndef VERIF_SILK_CONTRACTS_H
#define VERIF_SILK_CONTRACTS_H
#include "common.h"
#include "main.h"
#include "tables.h"

/* silk_NLSF_stabilize: outer loop abstracted (array havocked, only the counter constrained);
   the postcondition is re-established by the early return or by the fall-back pass. */
#undef  OPUS_VERIF_LOOP_nlsf_stab_outer
#define OPUS_VERIF_LOOP_nlsf_stab_outer \
  __CPROVER_assigns(loops, i, I, k, diff_Q15, min_diff_Q15, min_center_Q15, max_center_Q15, center_freq_Q15, __CPROVER_object_whole(NLSF_Q15)) \
  __CPROVER_loop_invariant(0 <= loops && loops <= MAX_LOOPS) \
  __CPROVER_decreases(MAX_LOOPS - loops)

#endif
