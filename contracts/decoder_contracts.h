/* Contracts for src/opus_decoder.c (C01, C09).  opus_decode_frame's contract is ASSUMED (trusted, listed in the
 * evidence): its body is 400 lines of float DSP glue around silk_Decode / celt_decode_with_ec. */
#ifndef VERIF_DECODER_CONTRACTS_H
#define VERIF_DECODER_CONTRACTS_H
#include "common.h"

/* representation invariant of OpusDecoder: the predicate of validate_opus_decoder() plus the frame-size bounds */
#define DEC_OK(st) (((st)->channels == 1 || (st)->channels == 2) && \
   ((st)->Fs == 48000 || (st)->Fs == 24000 || (st)->Fs == 16000 || (st)->Fs == 12000 || (st)->Fs == 8000) && \
   (st)->DecControl.API_sampleRate == (st)->Fs && (st)->DecControl.nChannelsAPI == (st)->channels && \
   ((st)->DecControl.internalSampleRate == 0 || (st)->DecControl.internalSampleRate == 16000 || (st)->DecControl.internalSampleRate == 12000 || (st)->DecControl.internalSampleRate == 8000) && \
   ((st)->DecControl.nChannelsInternal == 0 || (st)->DecControl.nChannelsInternal == 1 || (st)->DecControl.nChannelsInternal == 2) && \
   ((st)->DecControl.payloadSize_ms == 0 || (st)->DecControl.payloadSize_ms == 10 || (st)->DecControl.payloadSize_ms == 20 || (st)->DecControl.payloadSize_ms == 40 || (st)->DecControl.payloadSize_ms == 60) && \
   ((st)->stream_channels == 1 || (st)->stream_channels == 2) && \
   /* frame_size is only ever set from a TOC byte (or Fs/400 by init/reset): one of the six Opus frame durations */ \
   ((st)->frame_size == (st)->Fs / 400 || (st)->frame_size == (st)->Fs / 200 || (st)->frame_size == (st)->Fs / 100 || (st)->frame_size == (st)->Fs / 50 || \
    (st)->frame_size == (st)->Fs / 25 || (st)->frame_size == 3 * (st)->Fs / 50) && \
   (st)->arch >= 0 && (st)->arch <= OPUS_ARCHMASK)

#define DEC_CONFIG_SAME(st) ((st)->Fs == __CPROVER_old((st)->Fs) && (st)->channels == __CPROVER_old((st)->channels) && \
   (st)->celt_dec_offset == __CPROVER_old((st)->celt_dec_offset) && (st)->silk_dec_offset == __CPROVER_old((st)->silk_dec_offset) && \
   (st)->decode_gain == __CPROVER_old((st)->decode_gain) && (st)->complexity == __CPROVER_old((st)->complexity) && (st)->arch == __CPROVER_old((st)->arch))

/* what opus_decode_native establishes from the TOC byte before it hands a real frame to opus_decode_frame (RFC 6716 table 2):
   the mode can code this bandwidth and this frame duration.  Required by the assumed contract of opus_decode_frame for real frames
   (so the decode_native groups discharge it at every call), assumed by the decode_frame groups. */
#define DEC_TOC_OK(st) ( \
   ((st)->mode == MODE_SILK_ONLY && (st)->bandwidth >= OPUS_BANDWIDTH_NARROWBAND && (st)->bandwidth <= OPUS_BANDWIDTH_WIDEBAND && \
      ((st)->frame_size == (st)->Fs / 100 || (st)->frame_size == (st)->Fs / 50 || (st)->frame_size == (st)->Fs / 25 || (st)->frame_size == 3 * (st)->Fs / 50)) || \
   ((st)->mode == MODE_HYBRID && ((st)->bandwidth == OPUS_BANDWIDTH_SUPERWIDEBAND || (st)->bandwidth == OPUS_BANDWIDTH_FULLBAND) && \
      ((st)->frame_size == (st)->Fs / 100 || (st)->frame_size == (st)->Fs / 50)) || \
   ((st)->mode == MODE_CELT_ONLY && ((st)->bandwidth == OPUS_BANDWIDTH_NARROWBAND || (st)->bandwidth == OPUS_BANDWIDTH_WIDEBAND || \
       (st)->bandwidth == OPUS_BANDWIDTH_SUPERWIDEBAND || (st)->bandwidth == OPUS_BANDWIDTH_FULLBAND) && (st)->frame_size <= (st)->Fs / 50) )

#define MAX_PCM_SAMPLES (1 << 24)
#endif /* part 1 */

#if defined(VERIF_DECODER_CONTRACTS_PART2) && !defined(VERIF_DECODER_CONTRACTS_PART2_DONE)
#define VERIF_DECODER_CONTRACTS_PART2_DONE
static int opus_decode_frame(OpusDecoder *st, const unsigned char *data, opus_int32 len, opus_res *pcm, int frame_size, int decode_fec)
__CPROVER_requires(__CPROVER_is_fresh(st, sizeof(*st)) && DEC_OK(st))
__CPROVER_requires(0 < frame_size && frame_size <= MAX_PCM_SAMPLES && __CPROVER_is_fresh(pcm, (size_t)frame_size * st->channels * sizeof(opus_res)))
__CPROVER_requires(data == NULL ? 1 : (0 <= len && len <= 1275 + 1275 && (len == 0 || __CPROVER_is_fresh(data, len))))
__CPROVER_requires(decode_fec == 0 || decode_fec == 1)
__CPROVER_requires((data != NULL && len > 1) ==> DEC_TOC_OK(st))
__CPROVER_assigns(st->DecControl, st->rangeFinal, st->prev_mode, st->prev_redundancy, __CPROVER_object_whole(pcm))
__CPROVER_ensures(__CPROVER_return_value == OPUS_BAD_ARG || __CPROVER_return_value == OPUS_BUFFER_TOO_SMALL ||
                  __CPROVER_return_value == OPUS_INTERNAL_ERROR || __CPROVER_return_value == OPUS_INVALID_PACKET ||
                  (0 < __CPROVER_return_value && __CPROVER_return_value <= frame_size))
/* a real frame decodes to exactly the duration the TOC announced */
__CPROVER_ensures((__CPROVER_return_value > 0 && data != NULL && len > 1) ==> __CPROVER_return_value == st->frame_size)
/* concealment returns a positive multiple of 2.5 ms when asked for one */
__CPROVER_ensures((__CPROVER_return_value > 0 && (data == NULL || len <= 1) && frame_size % (st->Fs / 400) == 0) ==>
                  __CPROVER_return_value % (st->Fs / 400) == 0)
/* a frame of <= 1 payload byte (DTX / lost) is concealed for exactly the duration the TOC announced when the buffer allows it */
__CPROVER_ensures((__CPROVER_return_value > 0 && (data == NULL || len <= 1)) ==> __CPROVER_return_value <= st->frame_size)
__CPROVER_ensures((__CPROVER_return_value > 0 && (data == NULL || len <= 1) && frame_size >= st->frame_size) ==> __CPROVER_return_value == st->frame_size)
__CPROVER_ensures(frame_size < st->Fs / 400 ==> __CPROVER_return_value == OPUS_BUFFER_TOO_SMALL)
__CPROVER_ensures(DEC_OK(st) && DEC_CONFIG_SAME(st))
;
#endif
