/* Contracts for src/extensions.c (C16). */
#ifndef VERIF_EXT_CONTRACTS_H
#define VERIF_EXT_CONTRACTS_H
#include "common.h"
#include "opus_types.h"
#include "opus_private.h"

/* len <= 2^30: without a cap `bytes += lacing` could overflow int for len > INT_MAX-254, which no caller can
   reach with a real packet (recorded assumption) */
#define EXT_LEN_CAP (1 << 30)
/* ghost: the extension area is the object [verif_xbase, verif_xbase + verif_xn); cursors point INTO it (possibly one
   past its end when nothing is left), which is_fresh alone cannot express */
const unsigned char *verif_xbase; int verif_xn;
#define EXT_CURSOR(p, len) (1 <= verif_xn && verif_xn <= EXT_LEN_CAP && __CPROVER_is_fresh(verif_xbase, verif_xn) && \
     __CPROVER_pointer_in_range_dfcc(verif_xbase, (p), verif_xbase + verif_xn) && (len) == verif_xn - (PO(p) - PO(verif_xbase)))

static opus_int32 skip_extension_payload(const unsigned char **pdata, opus_int32 len, opus_int32 *pheader_size,
                                         int id_byte, opus_int32 trailing_short_len)
__CPROVER_requires(0 <= len && len <= EXT_LEN_CAP && 0 <= id_byte && id_byte <= 255 && 0 <= trailing_short_len)
__CPROVER_requires(__CPROVER_is_fresh(pdata, sizeof(*pdata)) && __CPROVER_is_fresh(pheader_size, sizeof(*pheader_size)))
__CPROVER_requires(EXT_CURSOR(*pdata, len))
__CPROVER_assigns(*pdata, *pheader_size)
__CPROVER_ensures(__CPROVER_return_value == -1 || (0 <= __CPROVER_return_value && __CPROVER_return_value <= len))
__CPROVER_ensures(__CPROVER_return_value == -1 ==> *pdata == __CPROVER_old(*pdata))
__CPROVER_ensures(__CPROVER_return_value >= 0 ==> (*pdata == __CPROVER_old(*pdata) + (len - __CPROVER_return_value) &&
                  0 <= *pheader_size && *pheader_size <= len - __CPROVER_return_value))
/* functional for short extensions (the iterator reads the payload byte of a separator after a successful skip) */
__CPROVER_ensures((__CPROVER_return_value >= 0 && (id_byte >> 1) > 0 && (id_byte >> 1) < 32 && (id_byte >> 1) != 2) ==>
                  (len - __CPROVER_return_value == (id_byte & 1) && *pheader_size == 0))
__CPROVER_ensures((__CPROVER_return_value >= 0 && ((id_byte >> 1) == 2 || id_byte == 1)) ==> (__CPROVER_return_value == len && *pheader_size == 0))
/* L=0 long extension (and the id 0 / L 0 byte, which the code treats the same way): everything up to the trailing short payloads */
__CPROVER_ensures((__CPROVER_return_value >= 0 && ((id_byte >> 1) >= 32 || id_byte == 0) && (id_byte & 1) == 0) ==> (__CPROVER_return_value == trailing_short_len && *pheader_size == 0))
/* long extension with L=1: the header is exactly the lacing bytes of the payload length: hs = payload/255 + 1 */
__CPROVER_ensures((__CPROVER_return_value >= 0 && (id_byte >> 1) >= 32 && (id_byte & 1) == 1) ==>
                  (*pheader_size >= 1 && *pheader_size == ((len - __CPROVER_return_value) - *pheader_size) / 255 + 1))
;

#undef  OPUS_VERIF_LOOP_ext_lacing
#define OPUS_VERIF_LOOP_ext_lacing \
  __CPROVER_assigns(lacing, bytes, header_size, len, data) \
  __CPROVER_loop_invariant(__CPROVER_same_object(data, *pdata) && PO(data) >= PO(*pdata)) \
  __CPROVER_loop_invariant(bytes >= 0 && header_size >= 0 && len >= -255 && len <= __CPROVER_loop_entry(len)) \
  __CPROVER_loop_invariant(PO(data) - PO(*pdata) == header_size) \
  __CPROVER_loop_invariant((long long)bytes == 255LL * header_size)   /* every lacing byte read so far was 255 */ \
  __CPROVER_loop_invariant((long long)len + bytes + header_size == __CPROVER_loop_entry(len)) \
  __CPROVER_decreases(len)

static opus_int32 skip_extension(const unsigned char **pdata, opus_int32 len, opus_int32 *pheader_size)
__CPROVER_requires(0 <= len && len <= EXT_LEN_CAP)
__CPROVER_requires(__CPROVER_is_fresh(pdata, sizeof(*pdata)) && __CPROVER_is_fresh(pheader_size, sizeof(*pheader_size)))
__CPROVER_requires(EXT_CURSOR(*pdata, len))
__CPROVER_assigns(*pdata, *pheader_size)
__CPROVER_ensures(__CPROVER_return_value == -1 || (0 <= __CPROVER_return_value && __CPROVER_return_value <= len))
__CPROVER_ensures(__CPROVER_return_value == -1 ==> *pdata == __CPROVER_old(*pdata))
__CPROVER_ensures(__CPROVER_return_value >= 0 ==> (*pdata == __CPROVER_old(*pdata) + (len - __CPROVER_return_value) &&
                  0 <= *pheader_size && *pheader_size <= len - __CPROVER_return_value))
__CPROVER_ensures((len > 0 && __CPROVER_return_value >= 0) ==> (__CPROVER_return_value < len && *pheader_size >= 1))
/* header = id byte + lacing bytes; payload = consumed - header; for a long L=1 extension header == 2 + payload/255 */
__CPROVER_ensures((len > 0 && __CPROVER_return_value >= 0 && (__CPROVER_old((*pdata)[0]) >> 1) >= 32 && (__CPROVER_old((*pdata)[0]) & 1) == 1) ==>
                  *pheader_size == ((len - __CPROVER_return_value) - *pheader_size) / 255 + 2)
__CPROVER_ensures((len > 0 && __CPROVER_return_value >= 0 && (__CPROVER_old((*pdata)[0]) >> 1) < 32) ==> *pheader_size == 1)
;
#endif
