/* Contracts for src/extensions.c (C16). */
#ifndef VERIF_EXT_CONTRACTS_H
#define VERIF_EXT_CONTRACTS_H
#include "common.h"
#include "opus_types.h"
#include "opus_private.h"

/* len <= 2^30: without a cap `bytes += lacing` could overflow int for len > INT_MAX-254, which no caller can
   reach with a real packet (recorded assumption) */
#define EXT_LEN_CAP (1 << 30)
/* ghost: the extension area is the object [verif_xbase, verif_xbase + verif_xn); cursors point INTO it (possibly one
   past its end when nothing is left), which is_fresh alone cannot express.  len is at most what is left of the area
   (the iterator's replay cursor is handed the length of the repeat region, which ends before the area does). */
const unsigned char *verif_xbase; int verif_xn;
#define EXT_CURSOR(p, len) (1 <= verif_xn && verif_xn <= EXT_LEN_CAP && __CPROVER_is_fresh(verif_xbase, verif_xn) && \
     __CPROVER_pointer_in_range_dfcc(verif_xbase, (p), verif_xbase + verif_xn) && (len) <= verif_xn - (PO(p) - PO(verif_xbase)))

static opus_int32 skip_extension_payload(const unsigned char **pdata, opus_int32 len, opus_int32 *pheader_size,
                                         int id_byte, opus_int32 trailing_short_len)
__CPROVER_requires(0 <= len && len <= EXT_LEN_CAP && 0 <= id_byte && id_byte <= 255 && 0 <= trailing_short_len)
__CPROVER_requires(__CPROVER_is_fresh(pdata, sizeof(*pdata)) && __CPROVER_is_fresh(pheader_size, sizeof(*pheader_size)))
__CPROVER_requires(EXT_CURSOR(*pdata, len))
__CPROVER_assigns(*pdata, *pheader_size)
__CPROVER_ensures(__CPROVER_return_value == -1 || (0 <= __CPROVER_return_value && __CPROVER_return_value <= len))
__CPROVER_ensures(__CPROVER_return_value == -1 ==> *pdata == __CPROVER_old(*pdata))
__CPROVER_ensures(__CPROVER_return_value >= 0 ==> (*pdata == __CPROVER_old(*pdata) + (len - __CPROVER_return_value) &&
                  0 <= *pheader_size && *pheader_size <= len - __CPROVER_return_value))
/* functional for short extensions (the iterator reads the payload byte of a separator after a successful skip) */
__CPROVER_ensures((__CPROVER_return_value >= 0 && (id_byte >> 1) > 0 && (id_byte >> 1) < 32 && (id_byte >> 1) != 2) ==>
                  (len - __CPROVER_return_value == (id_byte & 1) && *pheader_size == 0))
__CPROVER_ensures((__CPROVER_return_value >= 0 && ((id_byte >> 1) == 2 || id_byte == 1)) ==> (__CPROVER_return_value == len && *pheader_size == 0))
/* L=0 long extension (and the id 0 / L 0 byte, which the code treats the same way): everything up to the trailing short payloads */
__CPROVER_ensures((__CPROVER_return_value >= 0 && ((id_byte >> 1) >= 32 || id_byte == 0) && (id_byte & 1) == 0) ==> (__CPROVER_return_value == trailing_short_len && *pheader_size == 0))
/* long extension with L=1: the header is exactly the lacing bytes of the payload length: hs = payload/255 + 1 */
__CPROVER_ensures((__CPROVER_return_value >= 0 && (id_byte >> 1) >= 32 && (id_byte & 1) == 1) ==>
                  (*pheader_size >= 1 && *pheader_size == ((len - __CPROVER_return_value) - *pheader_size) / 255 + 1))
;

#undef  OPUS_VERIF_LOOP_ext_lacing
#define OPUS_VERIF_LOOP_ext_lacing \
  __CPROVER_assigns(lacing, bytes, header_size, len, data) \
  __CPROVER_loop_invariant(__CPROVER_same_object(data, *pdata) && PO(data) >= PO(*pdata)) \
  __CPROVER_loop_invariant(bytes >= 0 && header_size >= 0 && len >= -255 && len <= __CPROVER_loop_entry(len)) \
  __CPROVER_loop_invariant(PO(data) - PO(*pdata) == header_size) \
  __CPROVER_loop_invariant((long long)bytes == 255LL * header_size)   /* every lacing byte read so far was 255 */ \
  __CPROVER_loop_invariant((long long)len + bytes + header_size == __CPROVER_loop_entry(len)) \
  __CPROVER_decreases(len)

static opus_int32 skip_extension(const unsigned char **pdata, opus_int32 len, opus_int32 *pheader_size)
__CPROVER_requires(0 <= len && len <= EXT_LEN_CAP)
__CPROVER_requires(__CPROVER_is_fresh(pdata, sizeof(*pdata)) && __CPROVER_is_fresh(pheader_size, sizeof(*pheader_size)))
__CPROVER_requires(EXT_CURSOR(*pdata, len))
__CPROVER_assigns(*pdata, *pheader_size)
__CPROVER_ensures(__CPROVER_return_value == -1 || (0 <= __CPROVER_return_value && __CPROVER_return_value <= len))
__CPROVER_ensures(__CPROVER_return_value == -1 ==> *pdata == __CPROVER_old(*pdata))
__CPROVER_ensures(__CPROVER_return_value >= 0 ==> (*pdata == __CPROVER_old(*pdata) + (len - __CPROVER_return_value) &&
                  0 <= *pheader_size && *pheader_size <= len - __CPROVER_return_value))
__CPROVER_ensures((len > 0 && __CPROVER_return_value >= 0) ==> (__CPROVER_return_value < len && *pheader_size >= 1))
/* header = id byte + lacing bytes; payload = consumed - header; for a long L=1 extension header == 2 + payload/255 */
__CPROVER_ensures((len > 0 && __CPROVER_return_value >= 0 && (__CPROVER_old((*pdata)[0]) >> 1) >= 32 && (__CPROVER_old((*pdata)[0]) & 1) == 1) ==>
                  *pheader_size == ((len - __CPROVER_return_value) - *pheader_size) / 255 + 2)
__CPROVER_ensures((len > 0 && __CPROVER_return_value >= 0 && (__CPROVER_old((*pdata)[0]) >> 1) < 32) ==> *pheader_size == 1)
/* a short extension (ids 1, 3..31) is its id byte plus L payload bytes: the iterator reads the payload byte of a separator after the skip */
__CPROVER_ensures((len > 0 && __CPROVER_return_value >= 0 && (__CPROVER_old((*pdata)[0]) >> 1) > 0 && (__CPROVER_old((*pdata)[0]) >> 1) < 32 && (__CPROVER_old((*pdata)[0]) >> 1) != 2) ==>
                  len - __CPROVER_return_value == 1 + (__CPROVER_old((*pdata)[0]) & 1))
;

/* ---- extension iterator (C16): representation invariant, relative to the ghost extension area ---------------------- */
#define IT_OFF(p) (PO(p) - PO(verif_xbase))
#define IT_IN(p)  (__CPROVER_same_object((p), verif_xbase) && 0 <= IT_OFF(p))
/* fields that never change after init */
#define RI_IT_BASE(it) (0 <= (it)->len && (it)->len <= EXT_LEN_CAP && 0 <= (it)->nb_frames && (it)->nb_frames <= 48 && \
   ((it)->len > 0 ==> ((it)->data == verif_xbase && (it)->len == verif_xn)) && \
   ((it)->nb_frames == 0 ==> (it)->frame_max <= 0))     /* init sets frame_max = nb_frames; with no frames nothing may be asked for */
/* replay cursor: the repeat region [repeat_data, repeat_data+repeat_len) lies behind the read cursor; src walks it */
#define RI_IT_REPEAT(it) ((it)->repeat_len >= 0 && IT_OFF((it)->repeat_data) + (it)->repeat_len <= IT_OFF((it)->curr_data) && \
   (it)->src_len >= 0 && IT_IN((it)->src_data) && IT_OFF((it)->repeat_data) <= IT_OFF((it)->src_data) && \
   IT_OFF((it)->src_data) + (it)->src_len == IT_OFF((it)->repeat_data) + (it)->repeat_len)
/* a live iterator (curr_len >= 0), in parts so that a refuted clause names what broke */
#define RI_IT_L1(it) ((it)->curr_len <= (it)->len && 0 <= (it)->curr_frame && (it)->curr_frame <= (it)->nb_frames && \
   (((it)->curr_len > 0 && (it)->nb_frames > 0) ==> (it)->curr_frame < (it)->nb_frames) && 0 <= (it)->repeat_frame && (it)->repeat_frame <= (it)->nb_frames && \
   ((it)->repeat_frame > 0 ==> (it)->curr_frame < (it)->repeat_frame) && ((it)->len == 0 ==> (it)->repeat_frame == 0))
#define RI_IT_L2(it) ((it)->len > 0 ==> (IT_IN((it)->curr_data) && IT_OFF((it)->curr_data) + (it)->curr_len <= (it)->len && \
      (((it)->curr_len > 0 || (it)->repeat_frame > 0) ==> IT_OFF((it)->curr_data) + (it)->curr_len == (it)->len)))
#define RI_IT_L3(it) ((it)->len > 0 ==> (IT_IN((it)->repeat_data) && IT_OFF((it)->repeat_data) <= IT_OFF((it)->curr_data)))
#define RI_IT_L4(it) (0 <= (it)->trailing_short_len && ((it)->len > 0 ==> (it)->trailing_short_len <= IT_OFF((it)->curr_data)))
#define RI_IT_L5(it) (((it)->len > 0 && (it)->repeat_frame > 0) ==> RI_IT_REPEAT(it))
#define RI_IT_LIVE(it) (RI_IT_L1(it) && RI_IT_L2(it) && RI_IT_L3(it) && RI_IT_L4(it) && RI_IT_L5(it))
#define RI_IT(it) (RI_IT_BASE(it) && -1 <= (it)->curr_len && ((it)->curr_len >= 0 ==> RI_IT_LIVE(it)))
#define IT_FRESH(it) (__CPROVER_is_fresh(it, sizeof(*(it))) && 1 <= verif_xn && verif_xn <= EXT_LEN_CAP && __CPROVER_is_fresh(verif_xbase, verif_xn))
/* what a reported extension looks like: inside the area, for an existing frame below frame_max */
#define EXT_OK(it, e) (2 <= (e)->id && (e)->id <= 127 && 0 <= (e)->frame && (e)->frame < (it)->nb_frames && (e)->frame < (it)->frame_max && \
   (e)->len >= 0 && IT_IN((e)->data) && IT_OFF((e)->data) + (e)->len <= (it)->len && ((e)->id < 32 ==> (e)->len <= 1))

int opus_extension_iterator_next(OpusExtensionIterator *iter, opus_extension_data *ext)
__CPROVER_requires(IT_FRESH(iter) && (ext == NULL || __CPROVER_is_fresh(ext, sizeof(*ext))))
__CPROVER_requires(RI_IT(iter))
__CPROVER_assigns(iter->curr_data, iter->curr_len, iter->repeat_data, iter->last_long, iter->src_data, iter->src_len, iter->repeat_len,
                  iter->trailing_short_len, iter->curr_frame, iter->repeat_frame, iter->repeat_l)
__CPROVER_assigns(ext != NULL: __CPROVER_object_whole(ext))
__CPROVER_ensures(RI_IT_BASE(iter) && -1 <= iter->curr_len)
__CPROVER_ensures(iter->curr_len >= 0 ==> RI_IT_L1(iter))
__CPROVER_ensures(iter->curr_len >= 0 ==> RI_IT_L2(iter))
__CPROVER_ensures(iter->curr_len >= 0 ==> RI_IT_L3(iter))
__CPROVER_ensures(iter->curr_len >= 0 ==> RI_IT_L4(iter))
__CPROVER_ensures(iter->curr_len >= 0 ==> RI_IT_L5(iter))
__CPROVER_ensures(__CPROVER_return_value == 0 || __CPROVER_return_value == 1 || __CPROVER_return_value == OPUS_INVALID_PACKET)
__CPROVER_ensures(__CPROVER_old(iter->curr_len) < 0 ==> __CPROVER_return_value == OPUS_INVALID_PACKET)
__CPROVER_ensures((__CPROVER_return_value == 1 && ext != NULL) ==> (2 <= ext->id && ext->id <= 127 && (ext->id < 32 ==> ext->len <= 1)))
__CPROVER_ensures((__CPROVER_return_value == 1 && ext != NULL) ==> (0 <= ext->frame && ext->frame < iter->nb_frames && ext->frame < iter->frame_max))
__CPROVER_ensures((__CPROVER_return_value == 1 && ext != NULL) ==> (ext->len >= 0 && IT_IN(ext->data) && IT_OFF(ext->data) + ext->len <= iter->len))
__CPROVER_ensures(__CPROVER_return_value == 1 ==> iter->curr_len >= 0)
__CPROVER_ensures(iter->curr_len <= __CPROVER_old(iter->curr_len) || __CPROVER_old(iter->curr_len) < 0)
;

#define IT_LOOP_FIELDS_REPEAT iter->src_data, iter->src_len, iter->curr_data, iter->curr_len, header_size
#undef  OPUS_VERIF_LOOP_ext_iter_repeat_frames
#define OPUS_VERIF_LOOP_ext_iter_repeat_frames \
  __CPROVER_assigns(iter->repeat_frame, IT_LOOP_FIELDS_REPEAT; ext != NULL: __CPROVER_object_whole(ext)) \
  __CPROVER_loop_invariant(RI_IT_BASE(iter) && iter->len > 0 && iter->curr_len >= 0 && RI_IT_LIVE(iter) && RI_IT_REPEAT(iter)) \
  __CPROVER_loop_invariant(1 <= iter->repeat_frame && IT_OFF(iter->curr_data) + iter->curr_len == iter->len) \
  __CPROVER_loop_invariant(iter->curr_len <= __CPROVER_loop_entry(iter->curr_len)) \
  __CPROVER_decreases(iter->nb_frames - iter->repeat_frame)
#undef  OPUS_VERIF_LOOP_ext_iter_repeat_src
#define OPUS_VERIF_LOOP_ext_iter_repeat_src \
  __CPROVER_assigns(IT_LOOP_FIELDS_REPEAT; ext != NULL: __CPROVER_object_whole(ext)) \
  __CPROVER_loop_invariant(RI_IT_BASE(iter) && iter->len > 0 && iter->curr_len >= 0 && RI_IT_LIVE(iter) && RI_IT_REPEAT(iter)) \
  __CPROVER_loop_invariant(1 <= iter->repeat_frame && iter->repeat_frame < iter->nb_frames && IT_OFF(iter->curr_data) + iter->curr_len == iter->len) \
  __CPROVER_loop_invariant(iter->curr_len <= __CPROVER_loop_entry(iter->curr_len)) \
  __CPROVER_decreases(iter->src_len)
#undef  OPUS_VERIF_LOOP_ext_iter_main
#define OPUS_VERIF_LOOP_ext_iter_main \
  __CPROVER_assigns(iter->curr_data, iter->curr_len, iter->repeat_data, iter->last_long, iter->src_data, iter->src_len, iter->repeat_len, \
                    iter->trailing_short_len, iter->curr_frame, iter->repeat_frame, iter->repeat_l, header_size; ext != NULL: __CPROVER_object_whole(ext)) \
  __CPROVER_loop_invariant(RI_IT_BASE(iter) && iter->curr_len >= 0 && RI_IT_LIVE(iter) && iter->repeat_frame == 0 && iter->nb_frames > 0) \
  __CPROVER_loop_invariant(iter->curr_len > 0 ==> iter->curr_frame < iter->frame_max) \
  __CPROVER_loop_invariant(iter->curr_len <= __CPROVER_loop_entry(iter->curr_len)) \
  __CPROVER_decreases(iter->curr_len)
#endif
