/* representation invariant of the range encoder, as a plain predicate (same text as in entcode_contracts.h, which
   also declares the function contracts and therefore cannot be included next to the real bodies in H-style TUs) */
#ifndef VERIF_ENTCODE_RI_H
#define VERIF_ENTCODE_RI_H
#ifndef TWO23
#define TWO23 (1U<<23)
#define TWO31 (1U<<31)
#endif
#ifndef RI_ENC
#define RI_ENC(e) ((e)->storage <= (1U<<30) && (e)->offs <= (e)->storage && (e)->end_offs <= (e)->storage - (e)->offs && \
   -1 <= (e)->rem && (e)->rem <= 255 && 0 <= (e)->nend_bits && (e)->nend_bits <= 32 && \
   (e)->rng > TWO23 && (e)->rng <= TWO31 && (unsigned long long)(e)->val + (e)->rng <= (1ULL<<32) && \
   0 <= (e)->nbits_total && (e)->nbits_total < (1<<28) && ((e)->error == 0 || (e)->error == -1) && (e)->ext < (1U<<30) && \
   (((e)->rem < 0 && (e)->ext == 0) ==> ((e)->offs == 0 && (unsigned long long)(e)->val + (e)->rng <= (1ULL<<31))))
#endif
#endif
