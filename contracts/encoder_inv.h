/* Encoder state invariant and the "user settings" relation, shared by the proof TUs that include the real
 * src/opus_encoder.c (include this AFTER it: the predicates name OpusEncoder fields).
 * settings_ok: what opus_encoder_init establishes and every OPUS_SET_* request keeps (C11 enc_set_* groups);
 * stream_ok:   ranges of the stream-state fields (init / OPUS_RESET_STATE establish them, opus_encode_native
 *              re-establishes them: asserted in C11_encode_native.c). */
#ifndef VERIF_ENCODER_INV_H
#define VERIF_ENCODER_INV_H
/* ---- state invariant established by opus_encoder_init and kept by the ctl setters (C11 enc_set_* groups) ---- */
#define BW_OK(v) ((v) >= OPUS_BANDWIDTH_NARROWBAND && (v) <= OPUS_BANDWIDTH_FULLBAND)
#define MODE_OK(v) ((v) == MODE_SILK_ONLY || (v) == MODE_HYBRID || (v) == MODE_CELT_ONLY)
static int settings_ok(const OpusEncoder *s)
{
   return (s->channels == 1 || s->channels == 2) &&
      (s->Fs == 8000 || s->Fs == 12000 || s->Fs == 16000 || s->Fs == 24000 || s->Fs == 48000) &&
      (s->application == OPUS_APPLICATION_VOIP || s->application == OPUS_APPLICATION_AUDIO || s->application == OPUS_APPLICATION_RESTRICTED_LOWDELAY) &&
      (s->force_channels == OPUS_AUTO || (s->force_channels >= 1 && s->force_channels <= s->channels)) &&
      (s->signal_type == OPUS_AUTO || s->signal_type == OPUS_SIGNAL_VOICE || s->signal_type == OPUS_SIGNAL_MUSIC) &&
      (s->user_bandwidth == OPUS_AUTO || BW_OK(s->user_bandwidth)) && BW_OK(s->max_bandwidth) &&
      (s->user_forced_mode == OPUS_AUTO || MODE_OK(s->user_forced_mode)) &&
      (s->use_vbr == 0 || s->use_vbr == 1) && (s->vbr_constraint == 0 || s->vbr_constraint == 1) &&
      (s->user_bitrate_bps == OPUS_AUTO || s->user_bitrate_bps == OPUS_BITRATE_MAX || (s->user_bitrate_bps >= 500 && s->user_bitrate_bps <= 300000 * s->channels)) &&
      s->lsb_depth >= 8 && s->lsb_depth <= 24 && (s->lfe == 0 || s->lfe == 1) && (s->use_dtx == 0 || s->use_dtx == 1) &&
      s->fec_config >= 0 && s->fec_config <= 2 && (s->silk_mode.useInBandFEC == 0 || s->silk_mode.useInBandFEC == 1) &&
      s->silk_mode.complexity >= 0 && s->silk_mode.complexity <= 10 &&
      s->silk_mode.packetLossPercentage >= 0 && s->silk_mode.packetLossPercentage <= 100 &&
      s->encoder_buffer == s->Fs / 100 && s->delay_compensation == s->Fs / 250;     /* opus_encoder_init; never written again */
}
static int stream_ok(const OpusEncoder *s)
{
   return (s->stream_channels == 1 || s->stream_channels == 2) && s->stream_channels <= s->channels &&
      MODE_OK(s->mode) && (s->prev_mode == 0 || MODE_OK(s->prev_mode)) &&             /* init/reset: mode = HYBRID, prev_mode = 0 */
      (s->prev_channels >= 0 && s->prev_channels <= s->channels) && BW_OK(s->bandwidth) &&       /* init/reset: bandwidth = FULLBAND */
      /* the application can only be changed before the first frame (ctl: !first && application != value is rejected) */
      (s->application != OPUS_APPLICATION_RESTRICTED_LOWDELAY || s->prev_mode == 0 || s->prev_mode == MODE_CELT_ONLY) &&
      (s->auto_bandwidth == 0 || BW_OK(s->auto_bandwidth)) && (s->first == 0 || s->first == 1) &&
      s->voice_ratio >= -1 && s->voice_ratio <= 100 && (s->silk_mode.toMono == 0 || s->silk_mode.toMono == 1) &&
      (s->silk_mode.LBRR_coded == 0 || s->silk_mode.LBRR_coded == 1) &&
      (s->silk_mode.allowBandwidthSwitch == 0 || s->silk_mode.allowBandwidthSwitch == 1) &&
      (s->silk_mode.inWBmodeWithoutVariableLP == 0 || s->silk_mode.inWBmodeWithoutVariableLP == 1);
}
/* the user's settings (what the OPUS_SET_* requests store) */
static int user_settings_eq(const OpusEncoder *a, const OpusEncoder *b)
{
   return a->application == b->application && a->channels == b->channels && a->Fs == b->Fs && a->force_channels == b->force_channels &&
      a->signal_type == b->signal_type && a->user_bandwidth == b->user_bandwidth && a->max_bandwidth == b->max_bandwidth &&
      a->user_forced_mode == b->user_forced_mode && a->use_vbr == b->use_vbr && a->vbr_constraint == b->vbr_constraint &&
      a->variable_duration == b->variable_duration && a->user_bitrate_bps == b->user_bitrate_bps && a->lsb_depth == b->lsb_depth &&
      a->lfe == b->lfe && a->use_dtx == b->use_dtx && a->fec_config == b->fec_config && a->delay_compensation == b->delay_compensation &&
      a->silk_mode.complexity == b->silk_mode.complexity && a->silk_mode.useInBandFEC == b->silk_mode.useInBandFEC &&
      a->silk_mode.packetLossPercentage == b->silk_mode.packetLossPercentage && a->silk_mode.reducedDependency == b->silk_mode.reducedDependency &&
      a->celt_enc_offset == b->celt_enc_offset && a->silk_enc_offset == b->silk_enc_offset && a->encoder_buffer == b->encoder_buffer;
}
static int nyquist_bw(opus_int32 Fs)
{ return Fs <= 8000 ? OPUS_BANDWIDTH_NARROWBAND : Fs <= 12000 ? OPUS_BANDWIDTH_MEDIUMBAND : Fs <= 16000 ? OPUS_BANDWIDTH_WIDEBAND : Fs <= 24000 ? OPUS_BANDWIDTH_SUPERWIDEBAND : OPUS_BANDWIDTH_FULLBAND; }


/* what opus_encode_native hands to the frame coder (asserted at the call boundary in C11_encode_native.c, assumed by
   C20_frame_coder.c): an assume-guarantee pair */
#define FRAME_CODER_PRE(st, frame_size, max_data_bytes) \
   (MODE_OK((st)->mode) && BW_OK((st)->bandwidth) && ((st)->stream_channels == 1 || (st)->stream_channels == 2) && (st)->stream_channels <= (st)->channels && \
    !((st)->mode == MODE_CELT_ONLY && (st)->bandwidth == OPUS_BANDWIDTH_MEDIUMBAND) && \
    !((st)->mode == MODE_HYBRID && (st)->bandwidth <= OPUS_BANDWIDTH_WIDEBAND) && !((st)->mode == MODE_SILK_ONLY && (st)->bandwidth > OPUS_BANDWIDTH_WIDEBAND) && \
    ((frame_size) == (st)->Fs / 400 || (frame_size) == (st)->Fs / 200 || (frame_size) == (st)->Fs / 100 || (frame_size) == (st)->Fs / 50 || \
     ((st)->mode == MODE_SILK_ONLY && ((frame_size) == (st)->Fs / 25 || (frame_size) == 3 * (st)->Fs / 50))) && \
    ((frame_size) >= (st)->Fs / 100 || (st)->mode == MODE_CELT_ONLY) && (max_data_bytes) >= 1 && (max_data_bytes) <= 4000 && \
    /* a sub-frame of a multi-frame packet may get a budget above 1276 (the MDCT layer clamps its own output to 1275 bytes) */ \
    (st)->bitrate_bps >= 1 && (long long)(st)->bitrate_bps * (frame_size) <= 2147483647LL)
#endif
