/* Frame-only models of memmove/memcpy/memset (trusted, listed in evidence):
 * obligations: source readable, destination writable for n bytes;
 * effect: the n destination bytes are havocked (content NOT modelled), nothing else changes.
 * Used in unbounded groups, where CBMC's byte-precise built-in models blow up for a symbolic n
 * (measured: memcpy of symbolic length into 1024 bytes needs 38 GB). Bounded groups that need
 * the copied content use CBMC's built-in models instead (they do not include this header). */
#ifndef VERIF_LIBC_FRAME_H
#define VERIF_LIBC_FRAME_H
#include <stddef.h>
/* VERIF_MEM_HAVOC_ONLY(dst): a proof TU may restrict the havoc to some destinations (e.g. the packet buffer) when every
   other destination already holds unconstrained nondeterministic content that no obligation reads (float sample buffers
   inside an 18 kB encoder state: havocking a symbolic slice of such an object costs > 20 GB) */
#ifndef VERIF_MEM_HAVOC_ONLY
#define VERIF_MEM_HAVOC_ONLY(dst) 1
#endif
void *memmove(void *dst, const void *src, size_t n)
{
  __CPROVER_assert(n == 0 || __CPROVER_r_ok(src, n), "memmove: source readable for n bytes");
  __CPROVER_assert(n == 0 || __CPROVER_w_ok(dst, n), "memmove: destination writable for n bytes");
  if (n > 0 && VERIF_MEM_HAVOC_ONLY(dst)) __CPROVER_havoc_slice(dst, n);
  return dst;
}
void *memcpy(void *dst, const void *src, size_t n)
{
  __CPROVER_assert(n == 0 || __CPROVER_r_ok(src, n), "memcpy: source readable for n bytes");
  __CPROVER_assert(n == 0 || __CPROVER_w_ok(dst, n), "memcpy: destination writable for n bytes");
  if (n > 0 && VERIF_MEM_HAVOC_ONLY(dst)) __CPROVER_havoc_slice(dst, n);
  return dst;
}
void *memset(void *dst, int c, size_t n)
{
  __CPROVER_assert(n == 0 || __CPROVER_w_ok(dst, n), "memset: destination writable for n bytes");
  if (n > 0 && VERIF_MEM_HAVOC_ONLY(dst)) __CPROVER_havoc_slice(dst, n);
  return dst;
}
#endif
