/* Native demonstration against the real libopus (no stubs):
 *  (1) opus_multistream_encoder_ctl(OPUS_SET_EXPERT_FRAME_DURATION(v)) accepts values that are not OPUS_FRAMESIZE_*
 *      enumerants (the single-stream encoder rejects them with OPUS_BAD_ARG); afterwards every encode call fails.
 *  (2) OPUS_SET_FORCE_CHANNELS(2) on a multistream encoder with one coupled and one mono stream returns OPUS_BAD_ARG
 *      but has already changed the coupled stream's setting. */
#include <stdio.h>
#include <string.h>
#include "opus.h"
#include "opus_multistream.h"
int main(void)
{
   int err, ret, bad = 0; opus_int32 got = 0, fc0 = 0, fc1 = 0;
   unsigned char mapping[3] = {0, 1, 2}; unsigned char pkt[4000]; static opus_int16 pcm[960 * 3];
   OpusMSEncoder *ms = opus_multistream_encoder_create(48000, 3, 2, 1, mapping, OPUS_APPLICATION_AUDIO, &err);
   OpusEncoder *e0, *e1, *single = opus_encoder_create(48000, 2, OPUS_APPLICATION_AUDIO, &err);
   if (!ms || !single) return 77;
   ret = opus_encoder_ctl(single, OPUS_SET_EXPERT_FRAME_DURATION(12345));
   printf("single-stream SET_EXPERT_FRAME_DURATION(12345) -> %d\n", ret);
   ret = opus_multistream_encoder_ctl(ms, OPUS_SET_EXPERT_FRAME_DURATION(12345));
   opus_multistream_encoder_ctl(ms, OPUS_GET_EXPERT_FRAME_DURATION(&got));
   printf("multistream   SET_EXPERT_FRAME_DURATION(12345) -> %d, getter reports %d\n", ret, (int)got);
   if (ret != OPUS_BAD_ARG || got == 12345) { printf("NATIVE-VIOLATION (1): illegal frame duration accepted/stored\n"); bad = 1; }
   ret = opus_multistream_encode(ms, pcm, 960, pkt, sizeof(pkt));
   printf("  subsequent opus_multistream_encode(960 samples) -> %d\n", ret);
   opus_multistream_encoder_ctl(ms, OPUS_SET_EXPERT_FRAME_DURATION(OPUS_FRAMESIZE_ARG));

   opus_multistream_encoder_ctl(ms, OPUS_MULTISTREAM_GET_ENCODER_STATE(0, &e0));
   opus_multistream_encoder_ctl(ms, OPUS_MULTISTREAM_GET_ENCODER_STATE(1, &e1));
   opus_encoder_ctl(e0, OPUS_GET_FORCE_CHANNELS(&fc0)); opus_encoder_ctl(e1, OPUS_GET_FORCE_CHANNELS(&fc1));
   printf("before: force_channels stream0=%d stream1=%d\n", (int)fc0, (int)fc1);
   ret = opus_multistream_encoder_ctl(ms, OPUS_SET_FORCE_CHANNELS(2));
   opus_encoder_ctl(e0, OPUS_GET_FORCE_CHANNELS(&got));
   printf("multistream SET_FORCE_CHANNELS(2) -> %d; stream0 force_channels now %d\n", ret, (int)got);
   if (ret != OPUS_OK && got != fc0) { printf("NATIVE-VIOLATION (2): rejected request changed stream 0\n"); bad = 1; }
   return bad;
}
