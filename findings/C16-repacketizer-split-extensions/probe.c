/* Native demonstration (real libopus, no stubs): a 3-frame packet carries one extension (long id 40, payload "hey") attached to
 * audio frame 1.  Splitting it with the repacketizer must carry the extension to the output packet that holds frame 1.
 *   out_range(1,2): the output packet holds frame 1 but the extension is silently dropped;
 *   out_range(0,1): the call fails with OPUS_BAD_ARG (frame index 1 is handed to the generator of a 1-frame packet);
 *   out_range(0,3): (whole packet) works. */
#include <stdio.h>
#include <string.h>
#include "opus.h"
#include "opus_private.h"
static int ext_count_of(const unsigned char *pkt, int len, int *frame_of_first)
{
   unsigned char toc; const unsigned char *frames[48]; opus_int16 size[48]; int po; opus_int32 pko, plen; const unsigned char *padding;
   opus_extension_data ext[8]; opus_int32 n = 8; int nf;
   nf = opus_packet_parse_impl(pkt, len, 0, &toc, frames, size, &po, &pko, &padding, &plen);
   if (nf < 1) return -100;
   if (opus_packet_extensions_parse(padding, plen, ext, &n, nf) < 0) return -101;
   if (n > 0 && frame_of_first) *frame_of_first = ext[0].frame;
   return n;
}
int main(void)
{
   unsigned char pkt[64], out[64]; int len, pos, r, n, f = -1, bad = 0; opus_int32 xl;
   opus_extension_data e; OpusRepacketizer *rp = opus_repacketizer_create();
   e.id = 40; e.frame = 1; e.data = (const unsigned char *)"hey"; e.len = 3;
   /* code 3, CBR, padding flag, 3 frames of 2 bytes */
   pkt[0] = 0x03 | (16 << 3); pkt[1] = 0x40 | 3; pos = 3;     /* pkt[2] = padding length, filled below */
   memcpy(pkt + pos, "AABBCC", 6); pos += 6;
   xl = opus_packet_extensions_generate(pkt + pos, sizeof(pkt) - pos, &e, 1, 3, 0);
   pkt[2] = (unsigned char)xl; len = pos + xl;
   printf("source packet: %d bytes, %d extension(s)\n", len, ext_count_of(pkt, len, &f));
   if (opus_repacketizer_cat(rp, pkt, len) != OPUS_OK) return 77;
   r = opus_repacketizer_out_range(rp, 0, 3, out, sizeof(out)); n = r > 0 ? ext_count_of(out, r, &f) : -1;
   printf("out_range(0,3) -> %d, extensions %d (frame %d)\n", r, n, f);
   r = opus_repacketizer_out_range(rp, 1, 2, out, sizeof(out)); n = r > 0 ? ext_count_of(out, r, &f) : -1;
   printf("out_range(1,2) -> %d, extensions %d   [expected 1 extension on frame 0]\n", r, n);
   if (r <= 0 || n != 1) { printf("NATIVE-VIOLATION: extension of audio frame 1 is not carried to the packet holding frame 1\n"); bad = 1; }
   r = opus_repacketizer_out_range(rp, 0, 1, out, sizeof(out));
   printf("out_range(0,1) -> %d   [expected a 1-frame packet without extensions]\n", r);
   if (r <= 0) { printf("NATIVE-VIOLATION: splitting off frame 0 fails (%s)\n", opus_strerror(r)); bad = 1; }
   return bad;
}
