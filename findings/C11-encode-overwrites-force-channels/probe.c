/* Native demonstration (real libopus): an encode call overwrites the user's OPUS_SET_FORCE_CHANNELS setting.
 * A stereo encoder left at OPUS_AUTO encodes multi-frame packets (120 ms); when the bitrate drop makes it go from
 * stereo to mono inside such a packet, opus_encode_native executes "if (bak_to_mono) st->force_channels = 1;" and the
 * setting stays 1: the getter reports 1 and the stream stays mono after the bitrate is raised again. */
#include <stdio.h>
#include <math.h>
#include "opus.h"
int main(void)
{
   int err, i, k, n, bad = 0; opus_int32 fc = 0; static opus_int16 pcm[5760 * 2]; unsigned char pkt[4000];
   OpusEncoder *e = opus_encoder_create(48000, 2, OPUS_APPLICATION_VOIP, &err);
   if (!e) return 77;
   for (i = 0; i < 5760; i++) { pcm[2 * i] = (opus_int16)(8000 * sin(i * 0.05)); pcm[2 * i + 1] = (opus_int16)(8000 * sin(i * 0.031)); }
   opus_encoder_ctl(e, 11002 /* OPUS_SET_FORCE_MODE_REQUEST */, 1000 /* MODE_SILK_ONLY */);
   opus_encoder_ctl(e, OPUS_SET_BITRATE(64000));
   for (k = 0; k < 4; k++) { n = opus_encode(e, pcm, 5760, pkt, sizeof(pkt)); opus_encoder_ctl(e, OPUS_GET_FORCE_CHANNELS(&fc)); printf("64 kb/s packet %d: %d bytes, stereo flag %d, GET_FORCE_CHANNELS=%d\n", k, n, (pkt[0] >> 2) & 1, (int)fc); }
   opus_encoder_ctl(e, OPUS_SET_BITRATE(8000));
   for (k = 0; k < 4; k++) { n = opus_encode(e, pcm, 5760, pkt, sizeof(pkt)); opus_encoder_ctl(e, OPUS_GET_FORCE_CHANNELS(&fc)); printf(" 8 kb/s packet %d: %d bytes, stereo flag %d, GET_FORCE_CHANNELS=%d\n", k, n, (pkt[0] >> 2) & 1, (int)fc); }
   opus_encoder_ctl(e, OPUS_SET_BITRATE(64000));
   for (k = 0; k < 4; k++) { n = opus_encode(e, pcm, 5760, pkt, sizeof(pkt)); opus_encoder_ctl(e, OPUS_GET_FORCE_CHANNELS(&fc)); printf("64 kb/s packet %d: %d bytes, stereo flag %d, GET_FORCE_CHANNELS=%d\n", k, n, (pkt[0] >> 2) & 1, (int)fc); }
   if (fc != OPUS_AUTO) { printf("NATIVE-VIOLATION: the user never set FORCE_CHANNELS, the getter now reports %d\n", (int)fc); bad = 1; }
   return bad;
}
