#include <stdio.h>
#include <string.h>
#include "entenc.h"
#include "entdec.h"
int main(){ unsigned char buf[16]; ec_enc e; ec_dec d; int b0,b1; unsigned s;
 memset(buf,0,sizeof buf);
 ec_enc_init(&e,buf,8);
 ec_enc_bit_logp(&e,1,1); ec_enc_bit_logp(&e,1,1); ec_encode(&e,9999,10000,10000);
 printf("before patch: offs=%u rem=%d ext=%u rng=%08x val=%08x\n", e.offs,e.rem,e.ext,e.rng,e.val);
 ec_enc_patch_initial_bits(&e,2,2);
 printf("after patch error=%d\n", e.error);
 ec_enc_done(&e);
 if (e.error) { printf("encoder reports an error: the property's premise does not hold, nothing to check (this is the repaired behaviour)\n"); return 0; }
 printf("error=%d bytes %02x %02x %02x\n", e.error, buf[0],buf[1],buf[2]);
 ec_dec_init(&d,buf,8);
 b0=ec_dec_bit_logp(&d,1); b1=ec_dec_bit_logp(&d,1); s=ec_decode(&d,10000); 
 printf("decoded bits %d %d (patched value 2 => expect 1 0), symbol %u (expect 9999)\n", b0,b1,s);
 return !(b0==1&&b1==0&&s==9999);
}
