/* Native demonstration (real libopus): opus_projection_encode24() hands downmix_int (a reader of 16-bit samples) to the
 * per-stream analysis although its input is 32-bit (24-bit values).  The signal analysis therefore runs on garbage and
 * the 24-bit entry point takes different mode / bandwidth / rate decisions from opus_projection_encode() and
 * opus_projection_encode_float() on the same audio: the three views no longer give identical packets (C13).
 * opus_multistream_encode24() passes downmix_int24 and agrees with the other two. */
#include <stdio.h>
#include <string.h>
#include <math.h>
#include "opus.h"
#include "opus_projection.h"
#define FS 48000
#define N 960
#define CH 4
int main(void)
{
   int err, streams, coupled, k, i, c, n16, n24, nf, diff24 = 0, difff = 0;
   OpusProjectionEncoder *e16 = opus_projection_ambisonics_encoder_create(FS, CH, 3, &streams, &coupled, OPUS_APPLICATION_AUDIO, &err);
   OpusProjectionEncoder *e24 = opus_projection_ambisonics_encoder_create(FS, CH, 3, &streams, &coupled, OPUS_APPLICATION_AUDIO, &err);
   OpusProjectionEncoder *ef = opus_projection_ambisonics_encoder_create(FS, CH, 3, &streams, &coupled, OPUS_APPLICATION_AUDIO, &err);
   static opus_int16 p16[N * CH]; static opus_int32 p24[N * CH]; static float pf[N * CH]; unsigned char b16[4000], b24[4000], bf[4000];
   if (!e16 || !e24 || !ef) { printf("projection encoder not available (%d)\n", err); return 77; }
   opus_projection_encoder_ctl(e16, OPUS_SET_LSB_DEPTH(16)); opus_projection_encoder_ctl(e24, OPUS_SET_LSB_DEPTH(16)); opus_projection_encoder_ctl(ef, OPUS_SET_LSB_DEPTH(16));
   opus_projection_encoder_ctl(e16, OPUS_SET_BITRATE(128000)); opus_projection_encoder_ctl(e24, OPUS_SET_BITRATE(128000)); opus_projection_encoder_ctl(ef, OPUS_SET_BITRATE(128000));
   for (k = 0; k < 60; k++) {
      for (i = 0; i < N; i++) for (c = 0; c < CH; c++) {
         double t = (double)(k * N + i) / FS;
         opus_int16 v = (opus_int16)(6000 * sin(2 * M_PI * (220 + 110 * c) * t) + 2000 * sin(2 * M_PI * 3100 * t) * (k > 20));
         p16[i * CH + c] = v; p24[i * CH + c] = 256 * (opus_int32)v; pf[i * CH + c] = v / 32768.f;
      }
      n16 = opus_projection_encode(e16, p16, N, b16, sizeof(b16));
      n24 = opus_projection_encode24(e24, p24, N, b24, sizeof(b24));
      nf = opus_projection_encode_float(ef, pf, N, bf, sizeof(bf));
      if (n16 < 0 || n24 < 0 || nf < 0) return 77;
      if (n16 != n24 || memcmp(b16, b24, n16)) { if (!diff24) printf("frame %d: 16-bit packet %d bytes (toc 0x%02x) vs 24-bit packet %d bytes (toc 0x%02x)\n", k, n16, b16[0], n24, b24[0]); diff24++; }
      if (n16 != nf || memcmp(b16, bf, n16)) difff++;
   }
   printf("packets differing from the 16-bit view: 24-bit %d of 60, float %d of 60\n", diff24, difff);
   if (diff24 || difff) { printf("NATIVE-VIOLATION: the three sample formats do not give identical packets\n"); return 1; }
   return 0;
}
