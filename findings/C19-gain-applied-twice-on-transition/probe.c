/* Native demonstration (real libopus): with a decoder gain set, the samples that opus_decode_frame cross-fades in at a
 * mode transition (SILK/hybrid <-> CELT-only without redundancy) are scaled by the gain TWICE: the recursive
 * opus_decode_frame(st, NULL, 0, pcm_transition, ...) call applies st->decode_gain to the concealment audio, that audio is
 * mixed into the frame by smooth_fade(), and then the outer call applies the gain to the whole frame again.
 * "Setting a decoder gain of g multiplies the decoded signal by 10^(g/5120) and nothing else" fails in the fade window. */
#include <stdio.h>
#include <math.h>
#include <stdlib.h>
#include "opus.h"
#define FS 48000
#define N 960
int main(void)
{
   int err, k, i, n, bad = 0, worst_pkt = -1; double worst = 0;
   OpusEncoder *encA = opus_encoder_create(FS, 1, OPUS_APPLICATION_AUDIO, &err), *encB = opus_encoder_create(FS, 1, OPUS_APPLICATION_AUDIO, &err), *enc;
   OpusDecoder *d0 = opus_decoder_create(FS, 1, &err), *dg = opus_decoder_create(FS, 1, &err);
   static float in[N], o0[N], og[N]; unsigned char pkt[1500]; const int gain = 2560; const double f = pow(10.0, gain / 5120.0);
   if (!encA || !encB || !d0 || !dg) return 77;
   opus_decoder_ctl(dg, OPUS_SET_GAIN(gain));
   opus_encoder_ctl(encA, OPUS_SET_BITRATE(32000)); opus_encoder_ctl(encB, OPUS_SET_BITRATE(32000));
   opus_encoder_ctl(encA, 11002, 1002); opus_encoder_ctl(encB, 11002, 1000);   /* private force-mode request: A codes MDCT-only, B SILK-only/hybrid */
   for (k = 0; k < 12; k++) {
      /* packets 0-5 CELT-only, 6-11 SILK-only/hybrid (private force-mode request 11002; MODE_SILK_ONLY 1000, MODE_CELT_ONLY 1002) */
      enc = k < 6 ? encA : encB;      /* two independent encoders: the switch packet carries no redundancy frame, so the decoder cross-fades concealment audio */
      for (i = 0; i < N; i++) in[i] = 0.3f * (float)sin(2 * M_PI * 440.0 * (k * N + i) / FS);
      n = opus_encode_float(enc, in, N, pkt, sizeof(pkt));
      if (n < 0) return 77;
      /* drop the redundancy the encoder adds at the switch by decoding only what a plain decoder sees: keep packet as is */
      if (opus_decode_float(d0, pkt, n, o0, N, 0) != N || opus_decode_float(dg, pkt, n, og, N, 0) != N) return 77;
      for (i = 0; i < N; i++) {
         double e = fabs(og[i] - f * o0[i]);
         if (e > 1e-4 * (1 + fabs(f * o0[i]))) { if (e > worst) { worst = e; worst_pkt = k; } bad++; }
      }
      printf("packet %2d (%s, %3d bytes, toc 0x%02x): max |out_gain - factor*out_0| so far %.6f\n", k, k < 6 ? "CELT" : "SILK", n, pkt[0], worst);
   }
   if (bad) { printf("NATIVE-VIOLATION: %d samples are not (decoded sample x 10^(g/5120)); worst error %.6f in packet %d\n", bad, worst, worst_pkt); return 1; }
   printf("gain scales every sample exactly\n");
   return 0;
}
