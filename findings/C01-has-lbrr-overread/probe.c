/* opus_packet_has_lbrr reads one byte beyond a packet that consists of a SILK/hybrid TOC byte only (a zero-length frame,
   legal framing per RFC 6716 3.2.1), and reads packet[0] of an empty packet.  Build:
     gcc -fsanitize=address -g -I/repo/include probe.c <libopus.a built with -fsanitize=address or plain> -lm
   With a plain libopus.a the read is shown by placing the packet at the very end of a page (mmap + mprotect). */
#include <stdio.h>
#include <string.h>
#include <sys/mman.h>
#include <unistd.h>
#include "opus.h"
int main(void)
{
   long pg = sysconf(_SC_PAGESIZE);
   unsigned char *m = mmap(NULL, 2 * pg, PROT_READ | PROT_WRITE, MAP_PRIVATE | MAP_ANONYMOUS, -1, 0);
   unsigned char *p;
   if (m == MAP_FAILED) return 2;
   mprotect(m + pg, pg, PROT_NONE);            /* the byte after the packet is not readable */
   p = m + pg - 1; p[0] = 0x08;                /* SILK-only NB 20 ms mono, code 0, no payload */
   printf("has_lbrr(1-byte SILK packet) ...\n"); fflush(stdout);
   printf(" = %d\n", opus_packet_has_lbrr(p, 1));   /* pinned tree: SIGSEGV here (reads p[1]) */
   printf("has_lbrr(empty packet) ...\n"); fflush(stdout);
   printf(" = %d\n", opus_packet_has_lbrr(m + pg, 0)); /* pinned tree: SIGSEGV here (reads packet[0]) */
   return 0;
}
