/* Executable transcription of RFC 6716 section 3.1/3.2 (frame packing, rules R1-R7) and Appendix B
 * (self-delimiting framing), written from the RFC text.  It shares no code with src/opus.c: a cursor over the
 * packet, explicit lengths, no pointer arithmetic.  Used as the oracle of the acceptance-iff-RFC check (class B). */
#ifndef RFC6716_FRAMING_H
#define RFC6716_FRAMING_H

typedef struct {
   int ok;             /* 1 = well-formed */
   int count;          /* number of frames M */
   int size[48];       /* frame lengths */
   int off[48];        /* offset of each frame from the start of the packet */
   int padding;        /* number of padding bytes (excluding the padding length bytes) */
   int consumed;       /* bytes belonging to this packet (whole input unless self-delimited) */
   int toc;
} rfc_packet;

/* duration of one frame in 48 kHz samples, RFC 6716 Table 2 */
static int rfc_frame_samples48(int toc)
{
   int config = toc >> 3;
   static const int silk[4] = {480, 960, 1920, 2880};       /* 10, 20, 40, 60 ms */
   static const int hyb[2] = {480, 960};                    /* 10, 20 ms */
   static const int celt[4] = {120, 240, 480, 960};         /* 2.5, 5, 10, 20 ms */
   if (config < 12) return silk[config & 3];
   if (config < 16) return hyb[config & 1];
   return celt[config & 3];
}

/* section 3.2.1 frame length coding: returns number of length bytes used (1 or 2), or -1 if they are not there */
static int rfc_frame_length(const unsigned char *p, int pos, int end, int *len)
{
   if (pos >= end) return -1;
   if (p[pos] < 252) { *len = p[pos]; return 1; }
   if (pos + 1 >= end) return -1;
   *len = p[pos + 1] * 4 + p[pos];
   return 2;
}

static void rfc6716_parse(const unsigned char *p, int n, int self_delimited, rfc_packet *o)
{
   int pos = 0, code, i, nb, l, M, vbr, pad_flag, cnt, remaining;
   o->ok = 0; o->count = 0; o->padding = 0; o->consumed = 0;
   if (n < 1) return;                                   /* R1 */
   o->toc = p[0]; code = p[0] & 3; pos = 1;
   if (code == 0) {                                     /* one frame */
      M = 1;
      if (self_delimited) {
         nb = rfc_frame_length(p, pos, n, &l); if (nb < 0) return; pos += nb;
         if (l > n - pos) return;
         o->size[0] = l;
      } else {
         o->size[0] = n - pos;
         if (o->size[0] > 1275) return;                 /* R2 */
      }
   } else if (code == 1) {                              /* two frames, same size */
      M = 2;
      if (self_delimited) {
         nb = rfc_frame_length(p, pos, n, &l); if (nb < 0) return; pos += nb;
         if (2 * l > n - pos) return;
         o->size[0] = o->size[1] = l;
      } else {
         if ((n - pos) % 2 != 0) return;                /* R3 */
         o->size[0] = o->size[1] = (n - pos) / 2;
         if (o->size[0] > 1275) return;                 /* R2 */
      }
   } else if (code == 2) {                              /* two frames, different sizes */
      M = 2;
      nb = rfc_frame_length(p, pos, n, &l); if (nb < 0) return; pos += nb;   /* R4 */
      if (l > n - pos) return;                          /* R4 */
      o->size[0] = l;
      if (self_delimited) {
         nb = rfc_frame_length(p, pos, n, &l); if (nb < 0) return; pos += nb;
         if (o->size[0] + l > n - pos) return;
         o->size[1] = l;
      } else {
         o->size[1] = n - pos - o->size[0];
         if (o->size[1] > 1275) return;                 /* R2 */
      }
   } else {                                             /* code 3: signalled number of frames */
      if (n < 2) return;                                /* R6/R7: frame count byte */
      cnt = p[pos++];
      M = cnt & 0x3F; vbr = (cnt >> 7) & 1; pad_flag = (cnt >> 6) & 1;
      if (M == 0) return;                               /* R5 */
      if (M * rfc_frame_samples48(p[0]) > 5760) return; /* R5: at most 120 ms */
      if (pad_flag) {
         int b;
         do {
            if (pos >= n) return;                       /* R6/R7: padding length bytes must be there */
            b = p[pos++];
            o->padding += (b == 255) ? 254 : b;
         } while (b == 255);
      }
      remaining = n - pos - o->padding;                 /* bytes left for frame lengths and frames */
      if (remaining < 0) return;                        /* R6/R7: P <= N-2 */
      if (vbr) {
         int sum = 0;
         for (i = 0; i < M - 1; i++) {
            nb = rfc_frame_length(p, pos, pos + remaining, &l); if (nb < 0) return;   /* R7 */
            pos += nb; remaining -= nb;
            if (l > remaining) return;                  /* R7 */
            o->size[i] = l; sum += l;
            if (sum > remaining) return;                /* R7 */
         }
         if (self_delimited) {
            nb = rfc_frame_length(p, pos, pos + remaining, &l); if (nb < 0) return;
            pos += nb; remaining -= nb;
            if (sum + l > remaining) return;
            o->size[M - 1] = l;
         } else {
            o->size[M - 1] = remaining - sum;
            if (o->size[M - 1] > 1275) return;          /* R2 */
         }
      } else {
         if (self_delimited) {
            nb = rfc_frame_length(p, pos, pos + remaining, &l); if (nb < 0) return;
            pos += nb; remaining -= nb;
            if (M * l > remaining) return;
         } else {
            if (remaining % M != 0) return;             /* R6 */
            l = remaining / M;
            if (l > 1275) return;                       /* R2 */
         }
         for (i = 0; i < M; i++) o->size[i] = l;
      }
   }
   /* frames follow the header back to back */
   for (i = 0; i < M; i++) { o->off[i] = pos; pos += o->size[i]; }
   o->count = M;
   o->consumed = pos + o->padding;
   if (o->consumed > n) return;
   if (!self_delimited && o->consumed != n) return;     /* every byte accounted for */
   o->ok = 1;
}
#endif
