/* C06: opus_packet_parse_impl — H-style contract check: inputs built by the harness, the real
 * function called directly, the contract clauses asserted afterwards.  Loop contracts are applied
 * in place through DFCC. */
#include "config.h"
#include "opus_parse.h"
#include "/repo/src/opus.c"
#include <stdlib.h>
VERIF_DEFINE_CELT_FATAL

void h_parse_h(void)
{
   opus_int32 len = nondet_int(); int sd = nondet_int();
   unsigned char *data;
   unsigned char toc; const unsigned char *frames[48]; opus_int16 size[48]; int po; opus_int32 pko; const unsigned char *padding; opus_int32 plen;
   _Bool w_toc = nondet_bool(), w_frames = nondet_bool(), w_po = nondet_bool(), w_pko = nondet_bool(), w_pad = nondet_bool();
   int ret;
   __CPROVER_assume(len >= 1);
   CANARY_ASSUME(len <= 8);
   data = malloc(len);
   __CPROVER_assume(data != NULL);
   __CPROVER_assume(VERIF_PARSE_CASE(data, len, sd));
   verif_K = nondet_int(); __CPROVER_assume(0 <= verif_K && verif_K < 48);
   verif_G[0] = 0;   /* ghost initialisation (DFCC makes globals nondeterministic) */
   ret = opus_packet_parse_impl(data, len, sd, w_toc ? &toc : NULL, w_frames ? frames : NULL, size,
                                w_po ? &po : NULL, w_pko ? &pko : NULL, w_pad ? &padding : NULL, w_pad ? &plen : NULL);
   __CPROVER_assert(ret == -4 || (1 <= ret && ret <= 48), "E2 result is INVALID_PACKET or a frame count 1..48");
   if (ret > 0) {
     CANARY("accept path");
     __CPROVER_assert(ret == (RFC_CODE(data[0]) == 0 ? 1 : RFC_CODE(data[0]) < 3 ? 2 : (data[1] & 0x3F)), "E3 frame count as announced by TOC code / count byte");
     __CPROVER_assert(ret * RFC_SPF48(data[0]) <= 5760, "E4 at most 120 ms");
     __CPROVER_assert(verif_K < ret ==> (0 <= size[verif_K] && size[verif_K] <= 1275), "E5 every frame size in 0..1275");
     __CPROVER_assert((verif_K < ret && (RFC_CODE(data[0]) == 1 || (RFC_CODE(data[0]) == 3 && !(data[1] & 0x80)))) ==> size[verif_K] == size[0], "E6 CBR: all frames equal");
     __CPROVER_assert(verif_K < ret ==> verif_G[verif_K+1] == verif_G[verif_K] + size[verif_K], "E7a prefix sums");
     __CPROVER_assert(__CPROVER_same_object(verif_hdr, data) && PO(verif_hdr) >= 1 && PO(verif_hdr) + verif_G[ret] <= len, "E7b frames inside the packet");
     __CPROVER_assert((w_frames && verif_K < ret) ==> frames[verif_K] == verif_hdr + verif_G[verif_K], "E7c frame pointers are the prefix sums");
     __CPROVER_assert(w_po ==> po == PO(verif_hdr), "E7d payload offset");
     __CPROVER_assert(w_pad ==> (padding == verif_hdr + verif_G[ret] && plen >= 0 && PO(padding) + plen <= len), "E8a padding inside the packet");
     __CPROVER_assert((w_pad && (RFC_CODE(data[0]) != 3 || !(data[1] & 0x40))) ==> plen == 0, "E8b no padding unless flagged");
     __CPROVER_assert(w_pko ==> (1 <= pko && pko <= len && pko >= PO(verif_hdr) + verif_G[ret]), "E8c consumed length");
     __CPROVER_assert((w_pko && w_pad) ==> pko == PO(padding) + plen, "E8d consumed = frames end + padding");
     __CPROVER_assert((w_pko && !sd) ==> pko == len, "E8e standard framing consumes the whole packet (R1-R7)");
     __CPROVER_assert(w_toc ==> toc == data[0], "E9 TOC");
   }
   CANARY("after parse_impl");
}
