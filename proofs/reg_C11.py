_E = dict(cls='P', tu='C11_enc_ctl.c', dfcc=False, timeout=600, unwind=2, cbmc_flags=['--object-bits', '10', '--no-array-field-sensitivity'], functions=['opus_encoder_ctl', 'user_bitrate_to_bitrate'],
          trusted=['stub body for celt_encoder_ctl (variadic, other TU): returns OPUS_OK and touches nothing of OpusEncoder'])
GROUPS = []
for _n in ['application', 'force_channels', 'max_bandwidth', 'dtx', 'complexity', 'inband_fec', 'packet_loss_perc', 'vbr', 'voice_ratio', 'vbr_constraint', 'signal', 'lsb_depth', 'expert_frame_duration', 'prediction_disabled']:
    GROUPS.append(dict(_E, name='enc_set_' + _n, entry='h_set_' + _n, expect_canaries=2,
        what='opus_encoder_ctl SET/GET %s on a fully symbolic encoder state, argument over all 2^32 values' % _n))
GROUPS.append(dict(_E, name='enc_set_bandwidth', entry='h_set_bandwidth', expect_canaries=2, what='OPUS_SET_BANDWIDTH: legal/illegal, coupled SILK rate cap'))
GROUPS.append(dict(_E, name='enc_set_bitrate', entry='h_set_bitrate', expect_canaries=2, what='OPUS_SET_BITRATE clamping and OPUS_GET_BITRATE AUTO/MAX resolution'))
GROUPS.append(dict(_E, name='enc_getters_unknown', entry='h_getters_unknown', what='read-only getters, null pointers, unknown request => OPUS_UNIMPLEMENTED'))
_D = dict(cls='P', tu='C11_dec_ctl.c', dfcc=False, timeout=600, unwind=2,
          trusted=['stub bodies for celt_decoder_ctl, silk_Get_Decoder_Size, celt_decoder_get_size, silk_InitDecoder, silk_ResetDecoder, celt_decoder_init (other TUs)'])
GROUPS += [
 dict(_D, name='dec_set_gain', entry='h_dec_set_gain', expect_canaries=2, functions=['opus_decoder_ctl'], what='OPUS_SET_GAIN / OPUS_GET_GAIN, all 2^32 values'),
 dict(_D, name='dec_set_complexity', entry='h_dec_set_complexity', expect_canaries=2, functions=['opus_decoder_ctl'], what='decoder OPUS_SET_COMPLEXITY / GET'),
 dict(_D, name='dec_getters_unknown', entry='h_dec_getters_unknown', functions=['opus_decoder_ctl'], what='decoder getters, null pointers, undefined and encoder-only requests => OPUS_UNIMPLEMENTED'),
 dict(_D, name='dec_init', entry='h_dec_init', expect_canaries=2, functions=['opus_decoder_init', 'opus_decoder_get_size'], what='opus_decoder_init / get_size argument validation and sub-state layout'),
 dict(_D, name='dec_create', entry='h_dec_create', expect_canaries=2, functions=['opus_decoder_create', 'opus_decoder_destroy'],
      cbmc_flags=['--object-bits', '10', '--malloc-may-fail', '--malloc-fail-null', '--memory-leak-check'], what='opus_decoder_create: bad arguments, allocation failure, no leak'),
]
GROUPS += [
 dict(name='gen_toc', cls='F', tu='C11_toc.c', entry='h_gen_toc', dfcc=False, unwind=7, timeout=600, functions=['gen_toc', 'opus_packet_get_mode', 'opus_packet_get_samples_per_frame', 'opus_packet_get_nb_channels', 'opus_packet_get_bandwidth'],
      what='for every (mode, legal frame size, legal bandwidth, channels, Fs) the TOC byte gen_toc builds reads back as exactly those settings'),
 dict(name='frame_size_select', cls='P', tu='C11_toc.c', entry='h_frame_size_select', dfcc=False, unwind=2, timeout=600, functions=['frame_size_select'],
      what='frame_size_select returns -1 or the legal Opus duration the variable_duration setting asks for'),
]
_MS = dict(cls='B', tu='C11_ms_enc_ctl.c', dfcc=False, cex={'self': True}, canary='real', expect_canaries=2, unwind=5, timeout=900, functions=['opus_multistream_encoder_ctl_va_list'],
           bounds='<= 3 streams (any split into coupled/mono), argument over all 2^32 values',
           trusted=['per-stream encoders modelled by the contract of opus_encoder_ctl for the request under test (enforced on the real function in the enc_set_* groups)'])
GROUPS += [
 dict(_MS, name='ms_set_complexity', entry='h_ms_set_complexity', what='multistream OPUS_SET_COMPLEXITY: all streams or none'),
 dict(_MS, name='ms_set_expert_frame_duration', entry='h_ms_set_expert_frame_duration', what='multistream OPUS_SET_EXPERT_FRAME_DURATION validates its argument'),
 dict(_MS, name='ms_set_force_channels', entry='h_ms_set_force_channels', what='multistream OPUS_SET_FORCE_CHANNELS: all streams or none'),
]

for _fs in (8000, 12000, 16000, 24000, 48000):
    GROUPS.append(dict(name='encode_native_decisions_fs%d' % _fs, cls='F', tu='C11_encode_native.c', entry='h_encode_native', dfcc=False, canary='real', expect_canaries=5, cex=False, tier='quick' if _fs in (48000, 8000) else 'thorough',
        defines=['-DVERIF_FS=%d' % _fs, '-U__SSE__'], unwind=9, timeout=1800, mem_gb=16, cbmc_flags=['--object-bits', '10', '--no-array-field-sensitivity'],
        replace_calls=['opus_encode_frame_native:verif_encode_frame_native', 'compute_stereo_width:verif_compute_stereo_width',
                       'is_digital_silence:verif_is_digital_silence', 'compute_frame_energy:verif_compute_frame_energy'],
        functions=['opus_encode_native', 'user_bitrate_to_bitrate', 'compute_equiv_rate', 'decide_fec', 'gen_toc'],
        trusted=['ASSUMED frame contract (stub) of opus_encode_frame_native: arbitrary result and stream state, writes no user setting; checks at its entry what the decision chain hands over',
                 'stubs with arbitrary results for compute_stereo_width, is_digital_silence, compute_frame_energy, run_analysis, tonality_get_info, celt_encoder_ctl, silk_InitEncoder, opus_packet_pad, opus_repacketizer_*',
                 'state invariant settings_ok/stream_ok assumed at entry (re-established at exit: asserted)'],
        bounds='Fs = %d, every legal frame duration, any encoder state satisfying the invariant, any buffer size <= 4000; all loops unwound completely (<= 8 iterations, unwinding assertions on)' % _fs,
        what='decision chain of opus_encode_native: forced channels/bandwidth/mode honoured at the frame coder, durations add up, user settings untouched'))
_EI = dict(cls='P', tu='C11_enc_init.c', dfcc=False, canary='real', unwind=2, timeout=900, mem_gb=16, cex=False, defines=['-U__SSE__'],
           trusted=['stubs of silk_Get_Encoder_Size / celt_encoder_get_size (fixed sizes), silk_InitEncoder / celt_encoder_init (succeed or fail, write only their own sub-state: extent asserted), celt_encoder_ctl, tonality_analysis_init'])
GROUPS += [
 dict(_EI, name='enc_init', entry='h_enc_init', expect_canaries=2, functions=['opus_encoder_init', 'opus_encoder_get_size'], cbmc_flags=['--object-bits', '10', '--no-array-field-sensitivity'],
      what='opus_encoder_init / get_size for every (Fs, channels, application): rejection of unsupported arguments, sub-state layout, documented defaults, encoder invariant established'),
 dict(_EI, name='enc_create', entry='h_enc_create', expect_canaries=2, functions=['opus_encoder_create', 'opus_encoder_destroy', 'opus_encoder_init'],
      cbmc_flags=['--object-bits', '10', '--no-array-field-sensitivity', '--malloc-may-fail', '--malloc-fail-null', '--memory-leak-check'], what='opus_encoder_create: bad arguments, failing sub-initialiser, allocation failure, no leak'),
]
GROUPS.append(dict(name='encode_native_force_mono_fs48000', cls='F', tu='C11_encode_native.c', entry='h_encode_native_force_mono', dfcc=False, canary='real', expect_canaries=2, cex=False, tier='thorough',
    defines=['-DVERIF_FS=48000', '-U__SSE__'], unwind=9, timeout=2400, mem_gb=20, cbmc_flags=['--object-bits', '10', '--no-array-field-sensitivity'],
    replace_calls=['opus_encode_frame_native:verif_encode_frame_native', 'compute_stereo_width:verif_compute_stereo_width',
                   'is_digital_silence:verif_is_digital_silence', 'compute_frame_energy:verif_compute_frame_energy'],
    functions=['opus_encode_native'], trusted=['stub of opus_encode_frame_native and helpers as in encode_native_decisions_*'],
    bounds='Fs = 48000, stereo encoder with force_channels == 1 in an otherwise arbitrary state, two consecutive encode calls of the same legal frame size',
    what='a forced mono request takes effect by the second packet (two-call history of the real opus_encode_native)'))
META = {}
