_E = dict(cls='P', tu='C11_enc_ctl.c', dfcc=False, timeout=600, unwind=2, functions=['opus_encoder_ctl', 'user_bitrate_to_bitrate'],
          trusted=['stub body for celt_encoder_ctl (variadic, other TU): returns OPUS_OK and touches nothing of OpusEncoder'])
GROUPS = []
for _n in ['application', 'force_channels', 'max_bandwidth', 'dtx', 'complexity', 'inband_fec', 'packet_loss_perc', 'vbr', 'voice_ratio', 'vbr_constraint', 'signal', 'lsb_depth', 'expert_frame_duration', 'prediction_disabled']:
    GROUPS.append(dict(_E, name='enc_set_' + _n, entry='h_set_' + _n, expect_canaries=2,
        what='opus_encoder_ctl SET/GET %s on a fully symbolic encoder state, argument over all 2^32 values' % _n))
GROUPS.append(dict(_E, name='enc_set_bandwidth', entry='h_set_bandwidth', expect_canaries=2, what='OPUS_SET_BANDWIDTH: legal/illegal, coupled SILK rate cap'))
GROUPS.append(dict(_E, name='enc_set_bitrate', entry='h_set_bitrate', expect_canaries=2, what='OPUS_SET_BITRATE clamping and OPUS_GET_BITRATE AUTO/MAX resolution'))
GROUPS.append(dict(_E, name='enc_getters_unknown', entry='h_getters_unknown', what='read-only getters, null pointers, unknown request => OPUS_UNIMPLEMENTED'))
META = {}
