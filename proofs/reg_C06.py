GROUPS = [
 dict(name='parse_size', cls='P', tu='C06_parse_size.c', entry='h_parse_size', enforce=['parse_size'],
      what='parse_size contract enforced on the real body, full domain', timeout=120),
 dict(name='size_roundtrip', cls='P', tu='C06_parse_size.c', entry='h_size_roundtrip', dfcc=False,
      functions=['encode_size'], what='parse_size(encode_size(s)) == s for 0<=s<=1275 (loop-free, real bodies)', timeout=120),
]
META = {}
