GROUPS = [
 dict(name='parse_size', cls='P', tu='C06_parse_size.c', entry='h_parse_size', enforce=['parse_size'],
      what='parse_size contract enforced on the real body, full domain', timeout=120),
 dict(name='size_roundtrip', cls='P', tu='C06_parse_size.c', entry='h_size_roundtrip', dfcc=False,
      functions=['encode_size'], what='parse_size(encode_size(s)) == s for 0<=s<=1275 (loop-free, real bodies)', timeout=120),
]
META = {'cex': {'tu': 'C06_iff_rfc.c', 'entry': 'h_iff_rfc', 'unwind': 10, 'timeout': 1200,
                'defines': ['-DVERIF_LEN_MAX=8', '-DVERIF_IFF_CASE(d,len,sd)=(((d)[0]&3)!=3 || len<2 || ((d)[1]&0x3F)<=6)'],
                'bounds': 'packets of <= 8 bytes, <= 6 frames, both framings'}}

# opus_packet_parse_impl: the contract is enforced per syntactic sub-case of (TOC code, len>=2, count byte flags,
# framing); group parse_cases_exhaustive proves that the sub-cases cover every input.
_PC = {
 'c0':      ('(len<1 || ((data)[0]&3)==0)', 3, []),
 'c1':      ('(len>=1 && ((data)[0]&3)==1)', 3, []),
 'c2':      ('(len>=1 && ((data)[0]&3)==2)', 3, []),
 'c3short': ('(len==1 && ((data)[0]&3)==3)', 2, []),
}
for pad in (0, 1):
    for vbr in (0, 1):
        for sd in (0, 1):
            _PC['c3_p%d_v%d_s%d' % (pad, vbr, sd)] = (
                '(len>=2 && ((data)[0]&3)==3 && (((data)[1]&0x40)!=0)==%d && (((data)[1]&0x80)!=0)==%d && ((sd)!=0)==%d)' % (pad, vbr, sd),
                49, (['-DVERIF_PARSE_LC_PAD'] if pad else []) + (['-DVERIF_PARSE_LC_VBR'] if vbr else []))
PARSE_CASES = {k: v[0] for k, v in _PC.items()}
for _k, (_v, _u, _d) in _PC.items():
    GROUPS.append(dict(name='parse_impl_' + _k, cls='P', tu='C06_parse_impl.c', entry='h_parse_impl', tier='off' if _k.startswith('c3_') else 'quick',
        enforce=['opus_packet_parse_impl'], unwind=_u, timeout=900,
        defines=['-DVERIF_PARSE_CASE(data,len,sd)=' + _v] + _d,
        what='opus_packet_parse_impl contract (E1-E9, assigns, loop invariants, no abort) for sub-case ' + _k + ', len unbounded'))

for _k, (_v, _u, _d) in _PC.items():
    GROUPS.append(dict(name='parse_h_' + _k, cls='P', tu='C06_parse_h.c', entry='h_parse_h', canary='real', tier='off',
        unwind=_u, timeout=900, expect_canaries=2, functions=['opus_packet_parse_impl'],
        defines=['-DVERIF_PARSE_CASE(data,len,sd)=' + _v] + _d,
        what='opus_packet_parse_impl clauses E2-E9 asserted after a direct call (H style), sub-case ' + _k + ', len unbounded'))

for _k, (_v, _u, _d) in _PC.items():
    if _k.startswith('c3_'):
        GROUPS.append(dict(name='parse_hs_' + _k, cls='P', tu='C06_parse_h.c', entry='h_parse_h', canary='real', tier='thorough' if '_v1_' in _k else 'off',
            unwind=_u, timeout=5400, expect_canaries=2, functions=['opus_packet_parse_impl'], mem_gb=20,
            defines=['-DVERIF_PARSE_CASE(data,len,sd)=' + _v, '-DVERIF_PARSE_LC_SIMPLE'] + _d,
            what='H style, all reachable loops under contract, sub-case ' + _k))


# H style, every reachable loop under contract; CBR cases additionally split by count range (the
# sum-of-equal-frames == len fact is a 31-bit multiplication/division identity: 34 s on its own for count<=48,
# 2 s for count<=8)
for (lo, hi) in ((1, 8), (9, 16), (17, 32), (33, 48)):
    for pad in (0, 1):
        for sd in (0, 1):
            _v = '(len>=2 && ((data)[0]&3)==3 && (((data)[1]&0x40)!=0)==%d && (((data)[1]&0x80)!=0)==0 && ((sd)!=0)==%d && ((data)[1]&0x3F)>=%d && ((data)[1]&0x3F)<=%d)' % (pad, sd, lo, hi)
            GROUPS.append(dict(name='parse_hc_p%d_s%d_n%d' % (pad, sd, lo), cls='P', tu='C06_parse_h.c', entry='h_parse_h', canary='real', tier='thorough',
                unwind=49, timeout=5400, expect_canaries=2, functions=['opus_packet_parse_impl'], mem_gb=20,
                defines=['-DVERIF_PARSE_CASE(data,len,sd)=' + _v, '-DVERIF_PARSE_LC_SIMPLE'] + (['-DVERIF_PARSE_LC_PAD'] if pad else []),
                what='H style, CBR code 3, count in %d..%d, pad=%d, self_delimited=%d; all loops under contract, len unbounded' % (lo, hi, pad, sd)))

# ---- class B: acceptance IFF RFC 6716 (independent transcription in spec/rfc6716_framing.h), bounded len ----
_IFF = dict(cls='B', tu='C06_iff_rfc.c', entry='h_iff_rfc', dfcc=False, canary='real', expect_canaries=2,
            functions=['opus_packet_parse_impl', 'parse_size', 'opus_packet_get_samples_per_frame'])
for _code in range(3):
    GROUPS.append(dict(_IFF, name='iff_rfc_code%d' % _code, unwind=10, timeout=900,
        defines=['-DVERIF_LEN_MAX=8', '-DVERIF_IFF_CASE(d,len,sd)=(((d)[0]&3)==%d)' % _code], bounds='len <= 8 bytes, all bytes symbolic, both framings',
        what='parser accepts IFF the RFC transcription accepts, identical frames/padding/consumed length; TOC code %d' % _code))
GROUPS.append(dict(_IFF, name='iff_rfc_code3_n6', unwind=10, timeout=1200,
    defines=['-DVERIF_LEN_MAX=8', '-DVERIF_IFF_CASE(d,len,sd)=(((d)[0]&3)==3 && (len<2 || ((d)[1]&0x3F)<=6))'],
    bounds='len <= 8 bytes, frame count <= 6, all bytes symbolic, both framings, CBR/VBR/padding',
    what='parser accepts IFF the RFC transcription accepts; TOC code 3 with at most 6 frames'))
GROUPS.append(dict(_IFF, name='iff_rfc_code3_full', tier='thorough', unwind=50, timeout=3600, mem_gb=24,
    defines=['-DVERIF_LEN_MAX=10', '-DVERIF_IFF_CASE(d,len,sd)=(((d)[0]&3)==3)'],
    bounds='len <= 10 bytes, any frame count (<= 48, zero-length frames), both framings',
    what='parser accepts IFF the RFC transcription accepts; TOC code 3, all counts'))
for _code in range(3):
    GROUPS.append(dict(_IFF, name='iff_rfc_code%d_len20' % _code, tier='thorough', unwind=22, timeout=3600,
        defines=['-DVERIF_LEN_MAX=20', '-DVERIF_IFF_CASE(d,len,sd)=(((d)[0]&3)==%d)' % _code], bounds='len <= 20 bytes',
        what='as iff_rfc_code%d with len <= 20' % _code))

GROUPS.append(dict(name='parse_pad_n1', tier='thorough', cls='P', tu='C06_parse_h.c', entry='h_parse_h', canary='real', unwind=3, timeout=5400, expect_canaries=2,
    functions=['opus_packet_parse_impl'],
    defines=['-DVERIF_PARSE_CASE(data,len,sd)=(len>=2 && ((data)[0]&3)==3 && ((data)[1]&0x40)!=0 && ((data)[1]&0x3F)<=2)', '-DVERIF_PARSE_LC_PAD'],
    what='padding chain (do-while under loop contract, unbounded len) followed by at most 2 frames, CBR or VBR, both framings'))

GROUPS += [
 dict(name='has_lbrr', cls='F', tu='C06_has_lbrr.c', entry='h_has_lbrr', dfcc=False, unwind=6, timeout=900, canary='real', expect_canaries=2,
      functions=['opus_packet_has_lbrr', 'opus_packet_get_mode', 'opus_packet_get_samples_per_frame', 'opus_packet_get_nb_channels'],
      what='opus_packet_has_lbrr equals the OR of the LBRR flags read with the real range decoder as silk_Decode does; every TOC (code 0), frame of 0-3 symbolic bytes (a zero-length frame carries no LBRR)'),
 dict(name='has_lbrr_safe', cls='B', tu='C06_has_lbrr.c', entry='h_has_lbrr_safe', dfcc=False, unwind=6, defines=['-DVERIF_LBRR_MAXCOUNT=3'], timeout=900, canary='real', expect_canaries=1,
      functions=['opus_packet_has_lbrr', 'opus_packet_parse_impl'], bounds='packets of 0..5 symbolic bytes in an exact-size object, every framing code, code 3 with <= 3 frames',
      what='opus_packet_has_lbrr reads only the packet (C01 clause on the inspection functions) and returns 0, 1 or a documented error'),
 dict(name='has_lbrr_safe_all', tier='thorough', cls='B', tu='C06_has_lbrr.c', entry='h_has_lbrr_safe', dfcc=False, unwind=50, timeout=2400, canary='real', expect_canaries=1,
      functions=['opus_packet_has_lbrr', 'opus_packet_parse_impl'], bounds='packets of 0..5 symbolic bytes in an exact-size object, every framing code',
      what='opus_packet_has_lbrr reads only the packet (C01 clause on the inspection functions) and returns 0, 1 or a documented error'),
 dict(name='helpers_agree', cls='F', tu='C06_has_lbrr.c', entry='h_helpers_agree', dfcc=False, unwind=50, timeout=900, canary='real',
      functions=['opus_packet_get_nb_frames', 'opus_packet_get_nb_samples', 'opus_packet_get_samples_per_frame', 'opus_packet_get_nb_channels'],
      what='frame count / total samples / samples per frame / channels helpers agree with the parser and the RFC table on every packet of <= 3 bytes'),
]
