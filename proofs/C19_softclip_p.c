/* C19 (class P): opus_pcm_soft_clip (real body, src/opus.c) for ANY frame length N and channel count C (N*C <= 2^26),
 * every sample and memory value an arbitrary float bit pattern (NaN and infinities included): all nine loops under loop
 * contracts.  Decides the memory frame of the clipper - every read and write is inside x[0..N*C) and declip_mem[0..C)
 * (exact-size heap objects) - absence of integer overflow in the index arithmetic, and termination of every loop
 * (decreases clauses; the outer while(1) advances because a sample beyond +-1 has a non-negative square).
 * The values written are not constrained here (non-linear float arithmetic): see the bounded groups. */
#include "config.h"
#include "common.h"
#include <stdlib.h>
#define SC_IDX_OK (1 <= N && 1 <= C && (long long)N * C <= (1 << 26) && 0 <= c && c < C && x == _x + c)
#undef  OPUS_VERIF_LOOP_sc_sat
#define OPUS_VERIF_LOOP_sc_sat \
  __CPROVER_assigns(i, __CPROVER_object_whole(_x)) \
  __CPROVER_loop_invariant(0 <= i && i <= N * C) \
  __CPROVER_decreases(N * C - i)
#undef  OPUS_VERIF_LOOP_sc_chan
#define OPUS_VERIF_LOOP_sc_chan \
  __CPROVER_assigns(c, i, x, __CPROVER_object_whole(_x), __CPROVER_object_whole(declip_mem)) \
  __CPROVER_loop_invariant(0 <= c && c <= C) \
  __CPROVER_decreases(C - c)
#undef  OPUS_VERIF_LOOP_sc_cont
#define OPUS_VERIF_LOOP_sc_cont \
  __CPROVER_assigns(i, __CPROVER_object_whole(_x)) \
  __CPROVER_loop_invariant(0 <= i && i <= N) \
  __CPROVER_decreases(N - i)
#undef  OPUS_VERIF_LOOP_sc_main
#define OPUS_VERIF_LOOP_sc_main \
  __CPROVER_assigns(i, curr, a, __CPROVER_object_whole(_x)) \
  __CPROVER_loop_invariant(0 <= curr && curr < N) \
  __CPROVER_decreases(N - curr)
#undef  OPUS_VERIF_LOOP_sc_peak
#define OPUS_VERIF_LOOP_sc_peak \
  __CPROVER_assigns(i) \
  __CPROVER_loop_invariant(curr <= i && i <= N) \
  __CPROVER_decreases(N - i)
#undef  OPUS_VERIF_LOOP_sc_start
#define OPUS_VERIF_LOOP_sc_start \
  __CPROVER_assigns(start) \
  __CPROVER_loop_invariant(0 <= start && start <= i) \
  __CPROVER_decreases(start)
#undef  OPUS_VERIF_LOOP_sc_end
#define OPUS_VERIF_LOOP_sc_end \
  __CPROVER_assigns(end, maxval, peak_pos) \
  __CPROVER_loop_invariant(i <= end && end <= N && i <= peak_pos && peak_pos < N && (end > i || peak_pos == i) && peak_pos <= end) \
  __CPROVER_loop_invariant(end == i ==> x[i * C] * x[end * C] >= 0) \
  __CPROVER_decreases(N - end)
#undef  OPUS_VERIF_LOOP_sc_apply
#define OPUS_VERIF_LOOP_sc_apply \
  __CPROVER_assigns(i, __CPROVER_object_whole(_x)) \
  __CPROVER_loop_invariant(start <= i && i <= end) \
  __CPROVER_decreases(end - i)
#undef  OPUS_VERIF_LOOP_sc_ramp
#define OPUS_VERIF_LOOP_sc_ramp \
  __CPROVER_assigns(i, offset, __CPROVER_object_whole(_x)) \
  __CPROVER_loop_invariant(curr <= i && i <= peak_pos) \
  __CPROVER_decreases(peak_pos - i)
#include "/repo/src/opus.c"
VERIF_DEFINE_CELT_FATAL

void h_softclip_p(void)
{
   int N = nondet_int(), C = nondet_int(); float *x, *mem;
   __CPROVER_assume(1 <= N && 1 <= C && (long long)N * C <= (1 << 26));
#ifdef VERIF_C
   __CPROVER_assume(C == VERIF_C);      /* case split by channel count: the stride of every access is then a constant */
#endif
   x = malloc((size_t)N * C * sizeof(float)); mem = malloc((size_t)C * sizeof(float));
   __CPROVER_assume(x != NULL && mem != NULL);
   opus_pcm_soft_clip(x, N, C, mem);
   CANARY("after soft clip");
}
