GROUPS = [
 dict(name='skip_extension_payload', cls='P', tu='C16_skip.c', entry='h_skip_extension_payload', enforce=['skip_extension_payload'], timeout=600,
      assumptions=['extension area length <= 2^30 bytes'],
      what='skip_extension_payload: result -1 or 0..len, *pdata advanced by exactly len-result inside the buffer, header size bounded; lacing loop by contract'),
 dict(name='skip_extension', cls='P', tu='C16_skip.c', entry='h_skip_extension', enforce=['skip_extension'], replace=['skip_extension_payload'], timeout=600,
      what='skip_extension with skip_extension_payload replaced by its contract'),
]
_RT = dict(cls='B', tu='C16_roundtrip.c', dfcc=False, canary='real', unwind_fn={'skip_extension_payload': 2, 'write_extension_payload': 2}, recursion={'opus_extension_iterator_next': 3}, functions=['opus_packet_extensions_generate', 'opus_packet_extensions_parse',
           'opus_packet_extensions_count', 'opus_extension_iterator_next', 'write_extension', 'write_extension_payload', 'skip_extension', 'skip_extension_payload'])
for (_n, _f, _p, _tier) in ((1, 1, 2, 'thorough'), (2, 1, 2, 'thorough'), (2, 2, 1, 'thorough'), (3, 2, 1, 'thorough'), (2, 3, 2, 'thorough'), (3, 3, 2, 'thorough')):
    GROUPS.append(dict(_RT, name='ext_roundtrip_%dx%d' % (_n, _f), entry='h_ext_roundtrip', unwind=2 + max(_n, _f) + 1, timeout=3600, expect_canaries=2, tier=_tier, mem_gb=20,
        recursion={'opus_extension_iterator_next': 1 if _f == 1 else 3},      # a single frame cannot carry a repeat indicator: the iterator never recurses (checked by the recursion unwinding assertion)
        defines=['-DVERIF_NEXT=%d' % _n, '-DVERIF_NFRAMES=%d' % _f, '-DVERIF_PAYLOAD=%d' % _p],
        bounds='exactly %d extensions over %d frames (ids, frames, lengths, payload bytes symbolic), long payload <= %d bytes' % (_n, _f, _p),
        what='generate -> parse round trip, dry-run size == written size, exact-size buffer suffices, one byte less refused'))
for (_l, _f, _tier) in ((3, 2, 'quick'), (4, 2, 'quick'), (5, 3, 'thorough'), (6, 3, 'thorough')):
    GROUPS.append(dict(_RT, name='ext_arbitrary_%d' % _l, entry='h_ext_arbitrary', unwind=_l + 2, timeout=3600, tier='thorough', mem_gb=20,
        defines=['-DVERIF_RAW=%d' % _l, '-DVERIF_RAW_NF=%d' % _f], bounds='%d arbitrary bytes, %d frames' % (_l, _f),
        what='iterator / count / parse on arbitrary bytes: in-bounds results, existing frames, mutual agreement'))
_SPLIT = dict(cls='B', tu='C16_out_range_split.c', entry='h_out_range_split', dfcc=False, canary='real', functions=['opus_repacketizer_out_range_impl'], cex={'self': True},
    ignore=[(r'same object violation in ptr - frames', 'OPUS_MOVE type-check term 0*((dst)-(src)) on distinct buffers')],
    trusted=['stubs of opus_packet_extensions_count/parse/generate carrying a symbolic (id, frame) list per source packet; repacketizer state as left by opus_repacketizer_cat (C07 cat_invariant)',
             'the scratch extension list of out_range_impl is given a fixed capacity (requested size asserted to fit): CBMC cannot encode a variable-length array of structs at this size'],
    what='which extensions out_range hands to the generator and with which frame index: the ones of the selected audio frames, renumbered')
for (_b, _e) in ((0, 1), (0, 2), (0, 3), (1, 2), (1, 3), (2, 3)):
    GROUPS.append(dict(_SPLIT, name='out_range_split_b%de%d' % (_b, _e), unwind=8, timeout=900, mem_gb=12, expect_canaries=1 if (_b, _e) == (0, 3) else 2,
        defines=['-DVERIF_NF=3', '-DVERIF_FIXED_ALLOC', '-DVERIF_BEGIN=%d' % _b, '-DVERIF_END=%d' % _e],
        bounds='3 frames held, any partition into source packets, <= 2 extensions per source packet on any of its frames, selection [%d,%d)' % (_b, _e)))
GROUPS.append(dict(_SPLIT, name='out_range_split_nf4', unwind=10, timeout=3600, mem_gb=24, expect_canaries=2, tier='thorough', defines=['-DVERIF_NF=4', '-DVERIF_FIXED_ALLOC'],
    bounds='4 frames held, any partition into source packets, <= 2 extensions per source packet, any (begin,end)'))
GROUPS.append(dict(name='write_extension_lacing', cls='F', tu='C16_write_payload.c', entry='h_write_payload', dfcc=False, canary='real', expect_canaries=1, unwind=7, timeout=900, cex={'self': True},
    ignore=[(r'same object violation in &data\[.*\] - ext->data', 'OPUS_COPY type-check term 0*((dst)-(src)) on distinct buffers')],
    functions=['write_extension', 'write_extension_payload', 'skip_extension', 'skip_extension_payload'],
    trusted=['frame-only memcpy stub (payload content not modelled)'],
    bounds='one long extension (id 32..127), every payload length 0..1100 (lacing loop <= 4 iterations, unwound completely), any buffer size <= 1200, last or not',
    what='length lacing of a long extension as written by the generator primitive and as read back by the parser primitive'))

META = {'enforced_elsewhere': ['skip_extension_payload', 'skip_extension', 'opus_extension_iterator_next'],
        'cex': {'tu': 'C16_roundtrip.c', 'entry': 'h_ext_arbitrary', 'unwind': 7, 'defines': ['-DVERIF_RAW=4', '-DVERIF_RAW_NF=2'], 'timeout': 1200}}
for (_c, _cap, _tier, _sfx) in ((1, 600, 'quick', ''), (1, 1100, 'thorough', '_full'), (2, 1100, 'thorough', '')):
    GROUPS.append(dict(name='out_range_ext_c%d%s' % (_c, _sfx), cls='F' if _cap == 1100 else 'B', tu='C16_out_range_ext.c', entry='h_out_range_ext', dfcc=False, canary='real', expect_canaries=1, unwind=16, timeout=3600, mem_gb=20, tier=_tier,
        defines=['-DVERIF_COUNT=%d' % _c, '-DVERIF_EXT_CAP=%d' % _cap], functions=['opus_repacketizer_out_range_impl', 'opus_packet_parse_impl', 'encode_size'],
        ignore=[(r'same object violation in ptr - frames', 'OPUS_MOVE type-check term 0*((dst)-(src)) on distinct buffers')],
        trusted=['stub of opus_packet_extensions_generate (reports a symbolic size <= %d, records where it writes); frame-only memmove stub' % _cap],
        bounds='%d frame(s) of 0..300 bytes, serialised extensions of any size 1..%d bytes (covers the 254/255/509/510%s boundaries), any maxlen, no extra padding requested' % (_c, _cap, '/763/1020' if _cap == 1100 else ''),
        what='placement of the serialised extensions inside the output packet: exactly the tail of the padding area as the real parser sees it, preceded by 0x01 fill'))

GROUPS.append(dict(name='iterator_next', cls='P', tu='C16_iter.c', entry='h_iter_next', enforce_rec=['opus_extension_iterator_next'], replace=['skip_extension', 'skip_extension_payload'],
    timeout=2400, mem_gb=12, shards=4, tier='thorough', cbmc_flags=['--object-bits', '12'],
    assumptions=['the hardening assertion celt_assert(iter->src_len >= 0) ("we skipped this extension earlier") is modelled as a non-returning call without obligation in this group (content-dependent); it is an obligation in the bounded round-trip groups'],
    what='opus_extension_iterator_next (recursive, three loops under loop contracts): representation invariant preserved, result 0 / 1 / OPUS_INVALID_PACKET, a reported extension lies inside the padding, belongs to a frame below nb_frames and frame_max, short ids carry at most one byte; reads only the padding'))

GROUPS.append(dict(name='extensions_parse_p', cls='P', tu='C16_parse_p.c', entry='h_ext_parse_p', replace=['opus_extension_iterator_next'], canary='real', expect_canaries=2,
    timeout=1800, mem_gb=20, cbmc_flags=['--object-bits', '12'], functions=['opus_packet_extensions_parse', 'opus_extension_iterator_init'],
    what='opus_packet_extensions_parse on any bytes, any length, any capacity (loop contract; iterator_next by its contract, iterator_init real = base case of the iterator invariant): writes extensions[0..capacity) only, count <= capacity, every reported extension inside the padding and for an existing frame'))
