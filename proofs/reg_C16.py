GROUPS = [
 dict(name='skip_extension_payload', cls='P', tu='C16_skip.c', entry='h_skip_extension_payload', enforce=['skip_extension_payload'], timeout=600,
      assumptions=['extension area length <= 2^30 bytes'],
      what='skip_extension_payload: result -1 or 0..len, *pdata advanced by exactly len-result inside the buffer, header size bounded; lacing loop by contract'),
 dict(name='skip_extension', cls='P', tu='C16_skip.c', entry='h_skip_extension', enforce=['skip_extension'], replace=['skip_extension_payload'], timeout=600,
      what='skip_extension with skip_extension_payload replaced by its contract'),
]
META = {'enforced_elsewhere': ['skip_extension_payload']}
_RT = dict(cls='B', tu='C16_roundtrip.c', dfcc=False, canary='real', functions=['opus_packet_extensions_generate', 'opus_packet_extensions_parse',
           'opus_packet_extensions_count', 'opus_extension_iterator_next', 'write_extension', 'write_extension_payload', 'skip_extension', 'skip_extension_payload'])
GROUPS += [
 dict(_RT, name='ext_roundtrip_2x2', entry='h_ext_roundtrip', unwind=12, timeout=1200, expect_canaries=2,
      bounds='<= 2 extensions over <= 2 frames, long payload <= 2 bytes', what='generate -> parse round trip, dry-run size == written size, exact-size buffer suffices, one byte less refused'),
 dict(_RT, name='ext_arbitrary_5', entry='h_ext_arbitrary', unwind=8, timeout=1200,
      bounds='<= 5 arbitrary bytes, <= 3 frames', what='iterator / count / parse on arbitrary bytes: in-bounds results, existing frames, mutual agreement'),
 dict(_RT, name='ext_roundtrip_3x3', entry='h_ext_roundtrip', tier='thorough', unwind=16, timeout=3600, expect_canaries=2, mem_gb=24,
      defines=['-DVERIF_NEXT=3', '-DVERIF_NFRAMES=3', '-DVERIF_PAYLOAD=2'], bounds='<= 3 extensions over <= 3 frames, payload <= 2', what='round trip, larger bound'),
 dict(_RT, name='ext_arbitrary_8', entry='h_ext_arbitrary', tier='thorough', unwind=11, timeout=3600, defines=['-DVERIF_RAW=8'], mem_gb=24,
      bounds='<= 8 arbitrary bytes', what='arbitrary bytes, larger bound'),
]
