/* C10 (class B): encoder-side layout validation (validate_encoder_layout, static in src/opus_multistream_encoder.c):
 * a layout is accepted exactly when every coded stream has its input channel(s): coupled stream s needs a channel
 * mapped to 2s and one mapped to 2s+1, mono stream s needs one mapped to s+coupled.  Bounded number of channels and
 * streams, mapping fully symbolic; the specification below is written from the mapping definition of RFC 7845 5.1.1. */
#include "config.h"
#include "common.h"
#include "/repo/src/opus_multistream.c"
#include "/repo/src/opus_multistream_encoder.c"
VERIF_DEFINE_CELT_FATAL
#ifndef VERIF_CH
#define VERIF_CH 5
#endif
#ifndef VERIF_ST
#define VERIF_ST 4
#endif
static int has(const ChannelLayout *L, int v) { int i, r = 0; for (i = 0; i < VERIF_CH; i++) if (i < L->nb_channels && L->mapping[i] == v) r = 1; return r; }
void h_validate_encoder_layout(void)
{
   ChannelLayout L; int s, spec = 1, r;
   __CPROVER_assume(0 <= L.nb_channels && L.nb_channels <= VERIF_CH && 0 <= L.nb_streams && L.nb_streams <= VERIF_ST && 0 <= L.nb_coupled_streams && L.nb_coupled_streams <= L.nb_streams);
   for (s = 0; s < VERIF_ST; s++) if (s < L.nb_streams) {
      if (s < L.nb_coupled_streams) { if (!has(&L, 2 * s) || !has(&L, 2 * s + 1)) spec = 0; }
      else if (!has(&L, s + L.nb_coupled_streams)) spec = 0;
   }
   r = validate_encoder_layout(&L);
   __CPROVER_assert(r == spec, "validate_encoder_layout accepts exactly the layouts in which every coded stream has its input channel(s)");
   if (r) CANARY("accepted layout"); else CANARY("rejected layout");
}
