_F = dict(cls='P', tu='C13_conv.c', dfcc=False, defines=['-U__SSE__'], timeout=600,
          assumptions=['float2int verified in its C99 lrintf form (-U__SSE__); the x86 build uses cvtss2si (same value under round-to-nearest-even)'])
GROUPS = [
 dict(_F, name='enc_views', entry='h_enc_views', functions=['INT16TORES', 'INT24TORES', 'FLOAT2RES', 'INT16TOSIG', 'INT24TOSIG', 'FLOAT2SIG'],
      what='every int16 v: INT16TORES(v), INT24TORES(256v), FLOAT2RES(v/32768) are bit-identical (and the SIG variants)'),
 dict(_F, name='dec_int16', entry='h_dec_int16', functions=['RES2INT16', 'FLOAT2INT16', 'float2int'],
      what='every non-NaN float x: RES2INT16(x) == sat16(round(32768 x))'),
 dict(_F, name='dec_int24', entry='h_dec_int24', functions=['RES2INT24', 'float2int', 'RES2FLOAT'],
      what='every float |x|<256: RES2INT24(x) == round(2^23 x)'),
]
_W = dict(cls='P', tu='C13_enc_wrappers.c', replace=['opus_encode_native'], defines=['-U__SSE__'], canary='real', unwind=2, timeout=1200,
          cbmc_flags=['--object-bits', '10', '--no-array-field-sensitivity'],
          trusted=['recording contract in place of opus_encode_native: it only captures its arguments and sample K'])
GROUPS += [
 dict(_W, name='wrap_opus_encode', entry='h_opus_encode', expect_canaries=2, functions=['opus_encode', 'frame_size_select'], what='opus_encode: every sample reaches the native encoder as INT16TORES(pcm[K]) (loop contract, any frame size), depth 16, analysis on the caller samples'),
 dict(_W, name='wrap_opus_encode24', entry='h_opus_encode24', expect_canaries=2, functions=['opus_encode24', 'frame_size_select'], what='opus_encode24: every sample reaches the native encoder as INT24TORES(pcm[K])'),
 dict(_W, name='wrap_opus_encode_float', entry='h_opus_encode_float', functions=['opus_encode_float', 'frame_size_select'], what='opus_encode_float: samples passed through unchanged'),
]
META = {'cex': {'self': True, 'timeout': 600}}

GROUPS.append(dict(name='ms_copy_channel_in', cls='B', tu='C13_ms_copy_in.c', entry='h_ms_copy_in', dfcc=False, canary='real', expect_canaries=1, unwind=11, timeout=900, defines=['-U__SSE__', '-DVERIF_N=3'], cex=False,
    functions=['opus_copy_channel_in_short', 'opus_copy_channel_in_int24', 'opus_copy_channel_in_float'],
    bounds='3 samples per channel, source stride 1..3, any channel, destination stride 1..2, every int16 sample value',
    what='multistream encoder input copies: the three sample formats give bit-identical internal samples; channel selection and stride'))

_MW = dict(cls='P', tu='C13_ms_enc_wrappers.c', entry='h_ms_enc_wrappers', dfcc=False, canary='real', expect_canaries=3, unwind=2, timeout=600, cex=False,
           what='the three entry points describe their sample format consistently to the native encoder (copy-in, analysis down-mix, width, float flag)')
GROUPS.append(dict(_MW, name='projection_enc_wrappers', defines=['-U__SSE__', '-DVERIF_PROJECTION=1'], functions=['opus_projection_encode', 'opus_projection_encode24', 'opus_projection_encode_float'],
    trusted=['recording stub of opus_multistream_encode_native']))
GROUPS.append(dict(_MW, name='multistream_enc_wrappers', defines=['-U__SSE__'], replace_calls=['opus_multistream_encode_native:verif_ms_native'], functions=['opus_multistream_encode', 'opus_multistream_encode24', 'opus_multistream_encode_float'],
    trusted=['recording stub of opus_multistream_encode_native (calls redirected)']))

# shared with C11 (same TU, same harness): only the assertions named in 'focus' are this property's; the others are decided under C11
import copy as _copy
from proofs import reg_C11 as _reg_C11
for _g in _reg_C11.GROUPS:
    if _g['name'] == 'encode_native_decisions_fs48000':
        _h = _copy.deepcopy(_g); _h.pop('prop', None); _h['focus'] = ['sample precision', 'silence detector uses']; _h['what'] = 'LSB depth: the precision used is min(entry point width, OPUS_SET_LSB_DEPTH), identical for the integer and float entry points (decision chain of opus_encode_native)'
        GROUPS.append(_h)

# shared with C10 (same TU, same harness): the 16-bit output of the multistream decoder is the float output converted as the stand-alone
# decoder does (saturating); only that assertion is C13's, the routing assertions are decided under C10
from proofs import reg_C10 as _reg_C10
for _g in _reg_C10.GROUPS:
    if _g['name'] == 'ms_routing_c3s2p1n2':
        _h = _copy.deepcopy(_g); _h.pop('prop', None); _h['focus'] = ['16-bit output']; _h['what'] = 'multistream decoder 16-bit output = float output scaled, rounded and saturated, per mapped stream'
        GROUPS.append(_h)

GROUPS.append(dict(name='downmix_views', cls='B', tu='C13_enc_wrappers.c', entry='h_downmix_views', dfcc=False, canary='real', expect_canaries=1, unwind=8, timeout=900, defines=['-U__SSE__', '-DVERIF_DM_N=1', '-DVERIF_DM_C=2'],
    functions=['downmix_int', 'downmix_int24', 'downmix_float'], bounds='1 sample x 2 channels (offset 0..1), every sample, c1 and c2 (channel / -1 / -2) symbolic',
    what='the three analysis down-mix functions give bit-identical output on matched 16-bit / 24-bit / float input for every channel selection'))
