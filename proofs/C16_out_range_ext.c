/* C16/C07: extension carriage arithmetic of opus_repacketizer_out_range_impl (real body): where the serialised
 * extensions are placed inside the padding of the output packet, for ANY extension size (symbolic, up to the cap) and any
 * frame lengths.  opus_packet_extensions_generate is a stub that only reports a symbolic size in the dry run and
 * records where it is asked to write; the output header is then parsed back with the REAL parser:
 * the extension bytes must be exactly the tail of the padding area, preceded only by 0x01 fill bytes, and the packet
 * must still hold the selected frames. */
#include "config.h"
#include "common.h"
#include "libc_frame.h"
#include "/repo/src/opus.c"
static int g_ext_len; static unsigned char *g_gen_ptr; static int g_gen_len, g_gen_calls, g_dry_calls;
opus_int32 opus_packet_extensions_count(const unsigned char *data, opus_int32 len, int nb_frames)
{ (void)data; (void)nb_frames; __CPROVER_assert(len == 0, "no incoming extensions in this harness"); return 0; }
opus_int32 opus_packet_extensions_parse(const unsigned char *data, opus_int32 len, opus_extension_data *extensions, opus_int32 *nb_extensions, int nb_frames)
{ (void)data; (void)extensions; (void)nb_frames; __CPROVER_assert(len == 0, "no incoming extensions in this harness"); *nb_extensions = 0; return 0; }
opus_int32 opus_packet_extensions_generate(unsigned char *data, opus_int32 len, const opus_extension_data *extensions, opus_int32 nb_extensions, int nb_frames, int pad)
{
   (void)extensions; (void)nb_frames; (void)pad;
   __CPROVER_assert(nb_extensions >= 1, "generate is only called when there are extensions");
   if (g_ext_len > len) return OPUS_BUFFER_TOO_SMALL;              /* as the real generator: never more than len */
   if (data == NULL) { g_dry_calls++; return g_ext_len; }
   __CPROVER_assert(len == 0 || __CPROVER_w_ok(data, len), "generate writes inside the output buffer");
   g_gen_ptr = data; g_gen_len = len; g_gen_calls++;
   return g_ext_len;
}
#include "/repo/src/opus_decoder.c"
#undef st
#include "/repo/src/repacketizer.c"
#include <stdlib.h>
VERIF_DEFINE_CELT_FATAL
#ifndef VERIF_COUNT
#define VERIF_COUNT 1
#endif
#ifndef VERIF_PAD
#define VERIF_PAD 0      /* pad=1 fills up to maxlen with 0x01 bytes one at a time: O(maxlen) loop, bounded group only */
#endif
#ifndef VERIF_EXT_CAP
#define VERIF_EXT_CAP 1100
#endif
void h_out_range_ext(void)
{
   OpusRepacketizer rp; int i, k, pad = VERIF_PAD; opus_int32 maxlen = nondet_int(), ret; unsigned char *out;
   opus_extension_data ext[1];
   unsigned char toc; const unsigned char *frames[48]; opus_int16 size[48]; int po, n; opus_int32 pko, plen; const unsigned char *padding;
   rp.nb_frames = VERIF_COUNT; rp.toc = nondet_uchar(); rp.framesize = 20;
   for (i = 0; i < VERIF_COUNT; i++) {
      rp.len[i] = nondet_short(); __CPROVER_assume(0 <= rp.len[i] && rp.len[i] <= 300);
      rp.frames[i] = malloc(rp.len[i] > 0 ? rp.len[i] : 1); __CPROVER_assume(rp.frames[i] != NULL);
      rp.paddings[i] = NULL; rp.padding_len[i] = 0; rp.padding_nb_frames[i] = 0;
   }
   g_ext_len = nondet_int(); __CPROVER_assume(1 <= g_ext_len && g_ext_len <= VERIF_EXT_CAP);
   __CPROVER_assume(0 <= maxlen && maxlen <= VERIF_EXT_CAP + 300 * VERIF_COUNT + 32);
   CANARY_ASSUME(g_ext_len <= 3 && maxlen <= 24 && rp.len[0] <= 3);
   out = malloc(maxlen > 0 ? maxlen : 1); __CPROVER_assume(out != NULL);
   g_gen_calls = g_dry_calls = 0;
   ret = opus_repacketizer_out_range_impl(&rp, 0, VERIF_COUNT, out, maxlen, 0, pad, ext, 1);
   __CPROVER_assert(ret == OPUS_BUFFER_TOO_SMALL || (1 <= ret && ret <= maxlen), "with extensions: BUFFER_TOO_SMALL or a length in 1..maxlen");
   if (ret <= 0) { __CPROVER_assert(g_gen_calls == 0, "nothing is generated into a buffer that is refused"); return; }
   CANARY("emitted with extensions");
   __CPROVER_assert(g_gen_calls == 1 && g_gen_len == g_ext_len, "the extensions are generated once, into exactly the size the dry run reported");
   n = opus_packet_parse_impl(out, ret, 0, &toc, frames, size, &po, &pko, &padding, &plen);
   __CPROVER_assert(n == VERIF_COUNT, "the emitted packet header is valid and announces the selected frames");
   for (i = 0; i < VERIF_COUNT; i++) __CPROVER_assert(size[i] == rp.len[i], "frame sizes preserved");
   __CPROVER_assert(plen >= g_ext_len, "the padding area is large enough for the extensions");
   __CPROVER_assert(g_gen_ptr == padding + (plen - g_ext_len), "the extensions occupy exactly the tail of the padding area (not the frames, not the padding length bytes)");
   __CPROVER_assert(padding + plen == out + ret, "padding ends the packet");
   k = nondet_int(); __CPROVER_assume(0 <= k && k < plen - g_ext_len);
   __CPROVER_assert(padding[k] == 0x01, "padding in front of the extensions is 0x01 fill (a no-op extension), never stale data");
   __CPROVER_assert(pad == 0 || ret == maxlen, "pad requested: exactly maxlen bytes");
}
