/* C07/C05: opus_repacketizer_out_range_impl (real body) on an arbitrary well-formed repacketizer state with
 * VERIF_COUNT frames of ANY length 0..1275 (symbolic), any maxlen, both framings: the size accounting against maxlen.
 * H-style; memmove is the frame-only stub (content is covered by the bounded byte-for-byte groups), so frame
 * lengths are unbounded here.  Without padding (pad loops are O(maxlen)); pad=1 has its own bounded group. */
#include "config.h"
#include "common.h"
#include "libc_frame.h"
#include "/repo/src/opus.c"
/* No frame in these states carries padding or extensions (paddings NULL, padding_len 0), so the extension functions are
   only ever called on empty input; they are replaced by stubs that assert exactly that and answer as the real
   functions do for empty input (their behaviour on real input is C16's business). */
opus_int32 opus_packet_extensions_count(const unsigned char *data, opus_int32 len, int nb_frames)
{ (void)data; (void)nb_frames; __CPROVER_assert(len == 0, "extension count only on empty padding here"); return 0; }
opus_int32 opus_packet_extensions_parse(const unsigned char *data, opus_int32 len, opus_extension_data *extensions, opus_int32 *nb_extensions, int nb_frames)
{ (void)data; (void)extensions; (void)nb_frames; __CPROVER_assert(len == 0, "extension parse only on empty padding here"); *nb_extensions = 0; return 0; }
opus_int32 opus_packet_extensions_generate(unsigned char *data, opus_int32 len, const opus_extension_data *extensions, opus_int32 nb_extensions, int nb_frames, int pad)
{ (void)data; (void)len; (void)extensions; (void)nb_frames; (void)pad; __CPROVER_assert(nb_extensions == 0, "no extensions to generate here"); return 0; }
#include "/repo/src/opus_decoder.c"
#undef st
#include "/repo/src/repacketizer.c"
#include <stdlib.h>
VERIF_DEFINE_CELT_FATAL
#ifndef VERIF_COUNT
#define VERIF_COUNT 2
#endif
#ifndef VERIF_PAD
#define VERIF_PAD 0
#endif
#ifndef VERIF_MAXLEN_CAP
#define VERIF_MAXLEN_CAP (1277 * VERIF_COUNT + 16)
#endif
#ifndef VERIF_FRAME_CAP
#define VERIF_FRAME_CAP 1275
#endif
void h_out_range(void)
{
   OpusRepacketizer rp; int i, sd = nondet_bool(); opus_int32 maxlen = nondet_int(), ret, need; unsigned char *out;
   int begin = nondet_int(), end = nondet_int(), extra = nondet_int(), count, hdr;
   /* an arbitrary state satisfying the representation invariant, with up to 2 more frames around the selected range */
   __CPROVER_assume(0 <= extra && extra <= 2);
   rp.nb_frames = VERIF_COUNT + extra;
   rp.toc = nondet_uchar(); rp.framesize = 20;
   for (i = 0; i < VERIF_COUNT + 2; i++) {
      rp.len[i] = nondet_short(); __CPROVER_assume(0 <= rp.len[i] && rp.len[i] <= VERIF_FRAME_CAP);
      rp.frames[i] = malloc(rp.len[i] > 0 ? rp.len[i] : 1); __CPROVER_assume(rp.frames[i] != NULL);
      rp.paddings[i] = NULL; rp.padding_len[i] = 0; rp.padding_nb_frames[i] = 0;
   }
   __CPROVER_assume(0 <= begin && begin <= extra && end == begin + VERIF_COUNT);
   __CPROVER_assume(0 <= maxlen && maxlen <= VERIF_MAXLEN_CAP);
   out = malloc(maxlen > 0 ? maxlen : 1); __CPROVER_assume(out != NULL);
   ret = opus_repacketizer_out_range_impl(&rp, begin, end, out, maxlen, sd, VERIF_PAD, NULL, 0);
   __CPROVER_assert(ret == OPUS_BUFFER_TOO_SMALL || (1 <= ret && ret <= maxlen), "out_range returns BUFFER_TOO_SMALL or a length in 1..maxlen (never more than maxlen)");
   count = VERIF_COUNT;
   /* the canonical size: smallest framing code for these sizes */
   { int allsame = 1, sum = 0; for (i = 0; i < VERIF_COUNT; i++) { sum += rp.len[begin + i]; if (rp.len[begin + i] != rp.len[begin]) allsame = 0; }
     if (count == 1) hdr = 1;
     else if (count == 2) hdr = allsame ? 1 : 2 + (rp.len[begin] >= 252);
     else { hdr = 2; if (!allsame) for (i = 0; i < VERIF_COUNT - 1; i++) hdr += 1 + (rp.len[begin + i] >= 252); }
     if (sd) hdr += 1 + (rp.len[begin + count - 1] >= 252);
     need = hdr + sum; }
#if !VERIF_PAD
   __CPROVER_assert((ret > 0) == (need <= maxlen), "accepted exactly when the canonical packet fits in maxlen");
   __CPROVER_assert(ret > 0 ==> ret == need, "the returned length is header + frame lengths of the smallest framing code");
#else
   __CPROVER_assert(ret > 0 ==> ret == maxlen, "with padding requested the packet has exactly maxlen bytes");
   __CPROVER_assert(need > maxlen ==> ret == OPUS_BUFFER_TOO_SMALL, "refused when even the unpadded packet does not fit");
#endif
   __CPROVER_assert((sd || maxlen < 1277 * count) || ret > 0, "1277 bytes per selected frame always suffice (public, non-self-delimited API)");
   if (ret > 0) CANARY("emitted");
   CANARY("after out_range");
}
