/* C10: channel-layout helpers of src/opus_multistream.c (real bodies): validate_layout and the three look-ups.
 * The four loops run under loop contracts (ghost index verif_K = an arbitrary channel), layout and arguments fully symbolic. */
#include "config.h"
#include "common.h"
/* loop contracts of the four look-up loops: ghost index verif_K stands for "every index" */
int verif_K;
#define LOOKUP_LOOP(TARGET) \
  __CPROVER_assigns(i) \
  __CPROVER_loop_invariant(i >= ((prev < 0) ? 0 : prev + 1) && (i <= layout->nb_channels || i == ((prev < 0) ? 0 : prev + 1))) \
  __CPROVER_loop_invariant((((prev < 0) ? 0 : prev + 1) <= verif_K && verif_K < i && verif_K < layout->nb_channels) ==> layout->mapping[verif_K] != (TARGET)) \
  __CPROVER_decreases(layout->nb_channels - i)
#undef  OPUS_VERIF_LOOP_ms_get_left
#define OPUS_VERIF_LOOP_ms_get_left  LOOKUP_LOOP(stream_id * 2)
#undef  OPUS_VERIF_LOOP_ms_get_right
#define OPUS_VERIF_LOOP_ms_get_right LOOKUP_LOOP(stream_id * 2 + 1)
#undef  OPUS_VERIF_LOOP_ms_get_mono
#define OPUS_VERIF_LOOP_ms_get_mono  LOOKUP_LOOP(stream_id + layout->nb_coupled_streams)
#undef  OPUS_VERIF_LOOP_ms_validate_layout
#define OPUS_VERIF_LOOP_ms_validate_layout \
  __CPROVER_assigns(i) \
  __CPROVER_loop_invariant(0 <= i && i <= layout->nb_channels) \
  __CPROVER_loop_invariant((0 <= verif_K && verif_K < i) ==> (layout->mapping[verif_K] < max_channel || layout->mapping[verif_K] == 255)) \
  __CPROVER_decreases(layout->nb_channels - i)
#include "/repo/src/opus_multistream.c"
VERIF_DEFINE_CELT_FATAL

void h_validate_layout(void)
{
   ChannelLayout L; int r, k = nondet_int(); verif_K = k;
   __CPROVER_assume(0 <= L.nb_channels && L.nb_channels <= 255 && 0 <= L.nb_streams && L.nb_streams <= 255 && 0 <= L.nb_coupled_streams && L.nb_coupled_streams <= 255);
   __CPROVER_assume(0 <= k && k < 255);
   r = validate_layout(&L);
   __CPROVER_assert(r == 0 || r == 1, "validate_layout returns 0 or 1");
   __CPROVER_assert(r == 1 ==> L.nb_streams + L.nb_coupled_streams <= 255, "accepted layout has at most 255 coded channels");
   __CPROVER_assert((r == 1 && k < L.nb_channels) ==> (L.mapping[k] == 255 || L.mapping[k] < L.nb_streams + L.nb_coupled_streams), "accepted layout: every mapping entry is a coded channel or 255 (silence)");
   __CPROVER_assert((r == 0 && L.nb_streams + L.nb_coupled_streams <= 255) ==> 1, "rejected");
   /* completeness: a layout with an out-of-range entry is rejected */
   __CPROVER_assert((k < L.nb_channels && L.mapping[k] != 255 && L.mapping[k] >= L.nb_streams + L.nb_coupled_streams) ==> r == 0, "a mapping entry naming a non-existent coded channel is rejected");
   CANARY("after validate_layout");
}

#define LOOKUP_HARNESS(NAME, FN, TARGET) \
void h_##NAME(void) { \
   ChannelLayout L; int sid = nondet_int(), prev = nondet_int(), r, k = nondet_int(); verif_K = k; \
   __CPROVER_assume(0 <= L.nb_channels && L.nb_channels <= 255 && 0 <= L.nb_coupled_streams && L.nb_coupled_streams <= 255); \
   __CPROVER_assume(0 <= sid && sid <= 255 && -1 <= prev && prev < 255 && 0 <= k && k < 255); \
   r = FN(&L, sid, prev); \
   __CPROVER_assert(r == -1 || (prev < r && r < L.nb_channels), #FN ": result is -1 or an index after prev inside the layout"); \
   __CPROVER_assert(r >= 0 ==> L.mapping[r] == (TARGET), #FN ": the returned channel maps to the requested stream side"); \
   __CPROVER_assert((prev < k && k < L.nb_channels && (r == -1 || k < r)) ==> L.mapping[k] != (TARGET), #FN ": it is the first such channel after prev"); \
   CANARY("after " #FN); }
LOOKUP_HARNESS(get_left_channel, get_left_channel, sid * 2)
LOOKUP_HARNESS(get_right_channel, get_right_channel, sid * 2 + 1)
LOOKUP_HARNESS(get_mono_channel, get_mono_channel, sid + L.nb_coupled_streams)
