/* C16: skip_extension_payload / skip_extension — contracts enforced on the real bodies, len unbounded (<= 2^30). */
#include "config.h"
#include "ext_contracts.h"
#include "/repo/src/extensions.c"
VERIF_DEFINE_CELT_FATAL
void h_skip_extension_payload(void) { const unsigned char **pd; opus_int32 len, *ph, tsl; int idb; verif_xn = nondet_int(); skip_extension_payload(pd, len, ph, idb, tsl); CANARY("after skip_extension_payload"); }
void h_skip_extension(void) { const unsigned char **pd; opus_int32 len, *ph; verif_xn = nondet_int(); skip_extension(pd, len, ph); CANARY("after skip_extension"); }
