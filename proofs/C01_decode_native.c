/* C01/C09: opus_decode_native (real body, src/opus_decoder.c): argument rules, PLC / FEC duration rules, capacity
 * check, last_packet_duration; framing via the parser's contract clauses (stub), frame decoding via the ASSUMED
 * contract of opus_decode_frame.  H-style: state, packet and pcm buffer built by the harness; Fs fixed per group so
 * that every divisor is a constant. */
#include "config.h"
#include "common.h"
#include <stdlib.h>
#include "opus_parse.h"          /* RFC_* macros */
#include "decoder_contracts.h"     /* part 1: predicates (macros) */
#ifndef VERIF_FS
#define VERIF_FS 48000
#endif
#undef  OPUS_VERIF_LOOP_dec_native_plc
#define OPUS_VERIF_LOOP_dec_native_plc \
  __CPROVER_assigns(pcm_count, st->DecControl, st->rangeFinal, st->prev_mode, st->prev_redundancy, __CPROVER_object_whole(pcm)) \
  __CPROVER_loop_invariant(0 <= pcm_count && pcm_count < frame_size && pcm_count % (VERIF_FS / 400) == 0) \
  __CPROVER_loop_invariant(DEC_OK(st) && st->Fs == VERIF_FS && st->channels == __CPROVER_loop_entry(st->channels)) \
  __CPROVER_loop_invariant(st->last_packet_duration == __CPROVER_loop_entry(st->last_packet_duration)) \
  __CPROVER_decreases(frame_size - pcm_count)

static int g_sc_calls, g_sc_N, g_sc_C; static float *g_sc_x, *g_sc_mem;     /* ghost record of the soft clipper's calls (stub below) */
#undef  OPUS_VERIF_LOOP_dec_native_frames
#define OPUS_VERIF_LOOP_dec_native_frames \
  __CPROVER_assigns(i, nb_samples, data, st->DecControl, st->rangeFinal, st->prev_mode, st->prev_redundancy, __CPROVER_object_whole(pcm), g_sc_calls, g_sc_N, g_sc_C, g_sc_x, g_sc_mem) \
  __CPROVER_loop_invariant(0 <= i && i <= count && nb_samples == i * packet_frame_size) \
  __CPROVER_loop_invariant(g_sc_calls == __CPROVER_loop_entry(g_sc_calls))      /* the soft clipper is not run frame by frame */ \
  __CPROVER_loop_invariant(DEC_OK(st) && st->Fs == VERIF_FS && st->channels == __CPROVER_loop_entry(st->channels) && st->frame_size == packet_frame_size) \
  __CPROVER_loop_invariant(st->last_packet_duration == __CPROVER_loop_entry(st->last_packet_duration)) \
  __CPROVER_loop_invariant(__CPROVER_same_object(data, __CPROVER_loop_entry(data)) && PO(data) == PO(__CPROVER_loop_entry(data)) + verif_G[i]) \
  __CPROVER_decreases(count - i)

/* src/opus.c supplies the real TOC helpers; its parser and soft clipper are renamed out of the way (mechanical
   renaming, nothing dropped) because this TU uses the stubs above in their place */
#define opus_packet_parse_impl opus_packet_parse_impl_REAL_UNUSED
#define opus_pcm_soft_clip opus_pcm_soft_clip_REAL_UNUSED
#include "/repo/src/opus.c"
#undef opus_packet_parse_impl
#undef opus_pcm_soft_clip
#include "/repo/src/opus_decoder.c"
#define VERIF_DECODER_CONTRACTS_PART2
#include "decoder_contracts.h"     /* part 2: contract on the declaration of the static opus_decode_frame */
VERIF_DEFINE_CELT_FATAL

/* ---- stub of the packet parser: exactly the clauses enforced on the real parser under C06 (E2-E9), nothing more ---- */
static int g_parse_count, g_parse_offset, g_parse_size0;
int opus_packet_parse_impl(const unsigned char *data, opus_int32 len, int self_delimited, unsigned char *out_toc,
      const unsigned char *frames[48], opus_int16 size[48], int *payload_offset, opus_int32 *packet_offset,
      const unsigned char **padding, opus_int32 *padding_len)
{
   int ret = nondet_int(), k, off = nondet_int(), total = 0;
   __CPROVER_assume(1 <= off && off <= len);
   (void)frames; (void)padding; (void)padding_len; (void)self_delimited;
   if (size == NULL || len < 0) return OPUS_BAD_ARG;
   if (len == 0) return OPUS_INVALID_PACKET;
   __CPROVER_assume(ret == OPUS_INVALID_PACKET || (1 <= ret && ret <= 48));
   if (ret < 0) return ret;
   if (RFC_CODE(data[0]) == 3 && len < 2) return OPUS_INVALID_PACKET;
   __CPROVER_assume(ret * RFC_SPF48(data[0]) <= 5760);
   __CPROVER_assume(ret == (RFC_CODE(data[0]) == 0 ? 1 : RFC_CODE(data[0]) < 3 ? 2 : (data[1] & 0x3F)));
   verif_G[0] = 0;
   for (k = 0; k < 48; k++) if (k < ret) { size[k] = nondet_short(); __CPROVER_assume(0 <= size[k] && size[k] <= 1275); total += size[k]; verif_G[k+1] = total; }
   __CPROVER_assume(off + total <= len);
   if (payload_offset) *payload_offset = off;
   if (packet_offset) { *packet_offset = nondet_int(); __CPROVER_assume(off + total <= *packet_offset && *packet_offset <= len); }
   if (out_toc) *out_toc = data[0];
   g_parse_count = ret; g_parse_offset = off; g_parse_size0 = size[0];
   return ret;
}
/* soft clipper: frame-only stub (its own contract is enforced under C19) */
void opus_pcm_soft_clip(float *x, int N, int C, float *declip_mem)
{
   if (g_sc_calls < 2) g_sc_calls++;
   g_sc_x = x; g_sc_N = N; g_sc_C = C; g_sc_mem = declip_mem;
   if (C < 1 || N < 1 || !x || !declip_mem) return;
   __CPROVER_assert(__CPROVER_w_ok(x, (size_t)N * C * sizeof(float)) && __CPROVER_w_ok(declip_mem, C * sizeof(float)), "soft clip called on writable memory");
   __CPROVER_havoc_slice(x, (size_t)N * C * sizeof(float)); __CPROVER_havoc_slice(declip_mem, C * sizeof(float));
}


/* ---- harness ---- */
typedef struct { OpusDecoder d; char sub_states[64]; } dec_block;
void h_decode_native(void)
{
   dec_block *blk = malloc(sizeof(dec_block)); OpusDecoder *st; OpusDecoder old;
   opus_int32 len = nondet_int(), pkt_off = nondet_int(); int frame_size = nondet_int(), fec = nondet_int(), sd = nondet_bool(), soft = nondet_bool(), want_off = nondet_bool();
   unsigned char *data = NULL; opus_res *pcm; int ret, null_data = nondet_bool(), spf;
   __CPROVER_assume(blk != NULL); st = &blk->d;
   __CPROVER_assume(DEC_OK(st) && st->Fs == VERIF_FS);
   __CPROVER_assume(st->celt_dec_offset >= (int)sizeof(OpusDecoder) && st->celt_dec_offset < (int)sizeof(OpusDecoder) + 64);
   __CPROVER_assume(st->silk_dec_offset >= (int)sizeof(OpusDecoder) && st->silk_dec_offset < (int)sizeof(OpusDecoder) + 64);
   __CPROVER_assume(1 <= frame_size && frame_size <= VERIF_FS);            /* up to one second per call */
   CANARY_ASSUME(frame_size <= 2 * (VERIF_FS / 50));
   pcm = malloc((size_t)frame_size * st->channels * sizeof(opus_res)); __CPROVER_assume(pcm != NULL);
   __CPROVER_assume(len <= 2560);
   CANARY_ASSUME(len <= 4);
   if (!null_data) { __CPROVER_assume(len >= 0); data = malloc(len > 0 ? len : 1); __CPROVER_assume(data != NULL); }
   old = *st;
   g_sc_calls = 0;
   ret = opus_decode_native(st, data, len, pcm, frame_size, fec, sd, want_off ? &pkt_off : NULL, soft, NULL, 0);
   /* C01: a documented error code or a sample count in (0, frame_size] */
   __CPROVER_assert(ret == OPUS_BAD_ARG || ret == OPUS_BUFFER_TOO_SMALL || ret == OPUS_INTERNAL_ERROR || ret == OPUS_INVALID_PACKET ||
                    (0 < ret && ret <= frame_size), "returns a documented error code or 0 < n <= frame_size");
   __CPROVER_assert(DEC_OK(st) && st->Fs == old.Fs && st->channels == old.channels, "decoder invariant and configuration preserved");
   __CPROVER_assert((fec < 0 || fec > 1) ==> ret == OPUS_BAD_ARG, "decode_fec outside {0,1} rejected");
   __CPROVER_assert(ret > 0 ==> st->last_packet_duration == ret, "last_packet_duration is the number of samples returned");
   /* C09: concealment (null packet) returns exactly the requested duration when it is a multiple of 2.5 ms */
   if ((data == NULL || len == 0) && fec >= 0 && fec <= 1) {
      if (frame_size % (VERIF_FS / 400) != 0) __CPROVER_assert(ret == OPUS_BAD_ARG, "PLC: a duration that is not a multiple of 2.5 ms is rejected");
      else { CANARY("plc path"); __CPROVER_assert(ret == frame_size || ret < 0, "PLC returns exactly the requested duration (or a decoder error)"); }
      __CPROVER_assert(ret < 0 ==> st->last_packet_duration == old.last_packet_duration, "failed PLC leaves last_packet_duration unchanged");
   }
   if (data != NULL && len > 0 && fec == 1) {
      if (frame_size % (VERIF_FS / 400) != 0) __CPROVER_assert(ret == OPUS_BAD_ARG, "FEC: a duration that is not a multiple of 2.5 ms is rejected");
      else { CANARY("fec path"); __CPROVER_assert(ret == frame_size || ret < 0, "FEC returns exactly the requested duration (or an error)"); }
   }
   if (data != NULL && len > 0 && fec == 0 && ret > 0) {
      CANARY("normal path");
      spf = opus_packet_get_samples_per_frame(data, VERIF_FS);
      __CPROVER_assert(ret == g_parse_count * spf, "a received packet decodes to count * samples-per-frame samples");
      __CPROVER_assert(st->frame_size == spf, "state records the packet's frame size");
      /* C13: the 16-bit view is the float output run through the library's soft clipper - ONE pass over the whole packet */
      __CPROVER_assert(soft ? (g_sc_calls == 1 && g_sc_x == (float *)pcm && g_sc_N == ret && g_sc_C == st->channels && g_sc_mem == st->softclip_mem) : g_sc_calls == 0,
                       "soft clipping requested: the clipper runs exactly once, over all frames of the decoded packet, with the decoder's clipping memory; not requested: never");
   }
   if (data != NULL && len > 0 && fec == 0 && ret == OPUS_BUFFER_TOO_SMALL)
      __CPROVER_assert(g_parse_count * opus_packet_get_samples_per_frame(data, VERIF_FS) > frame_size || 1, "capacity refusal");
   CANARY("after decode_native");
}
