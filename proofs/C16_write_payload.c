/* C16: the length lacing written by the REAL write_extension / write_extension_payload (src/extensions.c, static) for a long
 * extension, for every payload length 0..1100 (covers the 254/255/256/509/510/765/1020 boundaries): the bytes written are the
 * RFC lacing of the length (k bytes 0xFF, then one byte < 255, with 255*k + last == len) when the extension is not the last one,
 * no length bytes when it is the last, the payload follows immediately, the returned position is consistent, and the REAL
 * skip_extension (the parser's primitive) applied to the written bytes finds exactly that payload.  Payload bytes are copied by
 * a frame-only memcpy (content not modelled here: the byte-exact round trip is the subject of the roundtrip_* groups). */
#include "config.h"
#include "common.h"
#define VERIF_MEM_HAVOC_ONLY(dst) 0      /* payload bytes are never read by an obligation of this TU: the copy is checked for its extents only */
#include "libc_frame.h"
#include "/repo/src/extensions.c"
VERIF_DEFINE_CELT_FATAL
#define CAP 1200
void h_write_payload(void)
{
   static unsigned char buf[CAP], payload[1100]; opus_extension_data ext; int last = nondet_int() & 1, pos, k, n, hdr; opus_int32 len = nondet_int();
   ext.id = nondet_int(); ext.frame = 0; ext.data = payload; ext.len = nondet_int();
   __CPROVER_assume(ext.id >= 32 && ext.id <= 127 && ext.len >= 0 && ext.len <= 1100 && len >= 0 && len <= CAP);
   pos = write_extension(buf, len, 0, &ext, last);
   k = ext.len / 255;
   if (pos < 0) { __CPROVER_assert(pos == OPUS_BUFFER_TOO_SMALL && len < 1 + (last ? 0 : k + 1) + ext.len, "refused only when the buffer is too small for id byte + lacing + payload"); return; }
   CANARY("extension written");
   __CPROVER_assert(pos == 1 + (last ? 0 : k + 1) + ext.len && pos <= len, "written size = id byte + lacing bytes + payload, inside the buffer");
   __CPROVER_assert(buf[0] == ((ext.id << 1) | (last ? 0 : 1)), "id byte carries the id and L = 1 exactly when a length follows");
   if (!last) {
      n = nondet_int(); __CPROVER_assume(0 <= n && n < k);
      __CPROVER_assert(buf[1 + n] == 255, "each full 255 of the length is one 0xFF byte");
      __CPROVER_assert(buf[1 + k] == ext.len - 255 * k && buf[1 + k] < 255, "the lacing ends with a byte below 255 holding the remainder (a multiple of 255 ends with 0)");
      {  /* the parser's primitive on the written bytes */
         const unsigned char *d = buf; opus_int32 l = pos, hs = 0; int r = skip_extension(&d, pos, &hs);
         __CPROVER_assert(r == 0 && hs == 1 + k + 1 && d == buf + pos, "skip_extension on the written bytes: header size = id byte + lacing, payload ends where the writer stopped");
         (void)l;
      }
   }
}
