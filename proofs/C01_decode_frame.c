/* C01/C09: opus_decode_frame (real body, src/opus_decoder.c, static): the glue between the packet layer and the SILK /
 * CELT decoders.  Checked against the ASSUMED frame contracts of its callees (stubs below, which also ASSERT that the
 * memory they are handed is valid -- that is where a wrong buffer size or a wrong redundancy offset shows):
 *   - result: a documented error or 0 < n <= frame_size; a real frame decodes to exactly st->frame_size;
 *     concealment (null / <= 1 byte payload) of a multiple of 2.5 ms SUCCEEDS and returns a positive multiple of
 *     2.5 ms, exactly st->frame_size when the buffer allows it;
 *   - every write stays inside pcm[0 .. frame_size*channels); the range decoder only reads the frame;
 *   - decoder invariant preserved, no internal abort (celt_assert).
 * Plain cbmc, recursion and all loops unwound (Fs fixed per group, frame_size <= 120 ms), decoder gain 0
 * (the gain loop is a float multiply per sample and does not affect any of the above). */
#include "config.h"
#include "common.h"
#include <stdlib.h>
#include <stdarg.h>
#include "decoder_contracts.h"
#ifndef VERIF_FS
#define VERIF_FS 8000
#endif
#include "/repo/celt/entcode.c"
#include "/repo/celt/entdec.c"
#define opus_packet_parse_impl opus_packet_parse_impl_REAL_UNUSED
#define opus_pcm_soft_clip opus_pcm_soft_clip_REAL_UNUSED
#include "/repo/src/opus.c"
#undef opus_packet_parse_impl
#undef opus_pcm_soft_clip
#ifdef VERIF_CH
/* The four scratch arrays of opus_decode_frame have data-dependent sizes (ALLOC_NONE or k*channels); CBMC's encoding of
   variable-length arrays does not scale (out of memory at 20 GB).  In the shape groups they get a fixed capacity, the requested
   size is recorded in ghost state, asserted to fit, and every stub that receives a pointer into one of them checks its extent
   against the REQUESTED size (vla_ok), so an under-sized request still fails an obligation at the callee boundary. */
#include "stack_alloc.h"
#undef ALLOC
#define VERIF_VLA_CAP (10 * (VERIF_FS / 400) * 2)
#define VERIF_VLA_N 12
static const void *g_vla_base[VERIF_VLA_N]; static long g_vla_req[VERIF_VLA_N]; static int g_vla_n;
static void verif_vla_note(const void *b, long req)
{ __CPROVER_assert(req >= 0 && req <= (long)(VERIF_VLA_CAP * sizeof(opus_res)), "scratch array request fits the fixed capacity of this harness");
  if (req <= (long)sizeof(opus_res)) return;          /* ALLOC_NONE placeholders are never used */
  __CPROVER_assert(g_vla_n < VERIF_VLA_N, "ghost table of scratch arrays is large enough");
  if (g_vla_n < VERIF_VLA_N) { g_vla_base[g_vla_n] = b; g_vla_req[g_vla_n] = req; g_vla_n++; } }
#define ALLOC(var, size, type) type var[VERIF_VLA_CAP]; verif_vla_note((const void *)var, (long)(size) * (long)sizeof(type))
static int vla_ok(const void *p, long nbytes)
{ int k; for (k = 0; k < VERIF_VLA_N; k++) if (k < g_vla_n && __CPROVER_same_object(p, g_vla_base[k]) && (long)__CPROVER_POINTER_OFFSET(p) + nbytes > g_vla_req[k]) return 0; return 1; }
#else
#define vla_ok(p, n) 1
#endif
#include "/repo/src/opus_decoder.c"
VERIF_DEFINE_CELT_FATAL
int opus_packet_parse_impl(const unsigned char *data, opus_int32 len, int self_delimited, unsigned char *out_toc, const unsigned char *frames[48], opus_int16 size[48],
      int *payload_offset, opus_int32 *packet_offset, const unsigned char **padding, opus_int32 *padding_len)
{ (void)data; (void)len; (void)self_delimited; (void)out_toc; (void)frames; (void)size; (void)payload_offset; (void)packet_offset; (void)padding; (void)padding_len; __CPROVER_assert(0, "parser not reachable from opus_decode_frame"); return -4; }
void opus_pcm_soft_clip(float *x, int N, int C, float *m) { (void)x; (void)N; (void)C; (void)m; __CPROVER_assert(0, "soft clipper not reachable from opus_decode_frame"); }

/* ---- assumed frame contracts of the DSP callees (trusted; each asserts the validity of what it is handed) ---- */
static float verif_window[120];
static OpusCustomMode verif_mode;
static int g_silk_calls, g_celt_calls, g_celt_bad;
#ifdef VERIF_GAIN
static int verif_K; static opus_res g_pre;
#endif
opus_int silk_Decode(void *decState, silk_DecControlStruct *decControl, opus_int lostFlag, opus_int newPacketFlag, ec_dec *psRangeDec,
                     opus_res *samplesOut, opus_int32 *nSamplesOut, int arch)
{
   int n = (decControl->API_sampleRate / 1000) * (decControl->payloadSize_ms == 10 ? 10 : 20);   /* one 10 or 20 ms SILK frame per call */
   (void)decState; (void)newPacketFlag; (void)arch;
   __CPROVER_assert(decControl->nChannelsAPI == 1 || decControl->nChannelsAPI == 2, "silk_Decode: channel count");
   __CPROVER_assert(decControl->payloadSize_ms == 10 || decControl->payloadSize_ms == 20 || decControl->payloadSize_ms == 40 || decControl->payloadSize_ms == 60, "silk_Decode: payload size is 10/20/40/60 ms");
   __CPROVER_assert(lostFlag == 0 || lostFlag == 1 || lostFlag == 2, "silk_Decode: lost flag");
   __CPROVER_assert(__CPROVER_w_ok(samplesOut, (size_t)n * decControl->nChannelsAPI * sizeof(opus_res)), "silk_Decode: output buffer holds one SILK frame");
   __CPROVER_assert(vla_ok(samplesOut, (long)n * decControl->nChannelsAPI * (long)sizeof(opus_res)), "silk_Decode: output stays inside the scratch array as requested");
   __CPROVER_assert(lostFlag == 1 || (psRangeDec->offs <= psRangeDec->storage && psRangeDec->rng > 0), "silk_Decode: range decoder state sane");
   g_silk_calls++;
   if (lostFlag != 1) { /* consumes some bits */ psRangeDec->nbits_total += nondet_uchar(); }
   if (nondet_bool()) return nondet_int() | 1;       /* may fail */
   __CPROVER_havoc_slice(samplesOut, (size_t)n * decControl->nChannelsAPI * sizeof(opus_res));
   *nSamplesOut = n;
   return 0;
}
opus_int silk_ResetDecoder(void *decState) { (void)decState; return 0; }
int celt_decode_with_ec_dred(CELTDecoder *st, const unsigned char *data, int len, opus_res *pcm, int frame_size, ec_dec *dec, int accum)
{
   int F2_5 = VERIF_FS / 400;
   (void)st; (void)accum; (void)dec;
   g_celt_calls++;
   __CPROVER_assert(data == NULL || len <= 1 || __CPROVER_r_ok(data, len), "celt_decode: the bytes it is given lie inside the packet");
   if (!(frame_size == F2_5 || frame_size == 2 * F2_5 || frame_size == 4 * F2_5 || frame_size == 8 * F2_5)) { g_celt_bad++; return OPUS_BAD_ARG; }   /* not a CELT frame size */
   __CPROVER_assert(__CPROVER_w_ok(pcm, (size_t)frame_size * 2 * sizeof(opus_res)) || __CPROVER_w_ok(pcm, (size_t)frame_size * sizeof(opus_res)), "celt_decode: output buffer holds the frame");
   __CPROVER_assert(vla_ok(pcm, (long)frame_size * (long)sizeof(opus_res)), "celt_decode: output stays inside the scratch array as requested (mono extent)");
#ifdef VERIF_GAIN
   g_pre = pcm[verif_K];        /* the decoded sample (arbitrary: the buffer content is nondeterministic) before post-processing */
#endif
   return frame_size;
}
int celt_decode_with_ec(CELTDecoder *st, const unsigned char *data, int len, opus_res *pcm, int frame_size, ec_dec *dec, int accum)
{ return celt_decode_with_ec_dred(st, data, len, pcm, frame_size, dec, accum); }
int opus_custom_decoder_ctl(CELTDecoder *st, int request, ...)
{
   va_list ap; (void)st; va_start(ap, request);
   if (request == CELT_GET_MODE_REQUEST) { const CELTMode **m = va_arg(ap, const CELTMode **); verif_mode.window = verif_window; verif_mode.overlap = 120; *m = &verif_mode; }
   else if (request == OPUS_GET_FINAL_RANGE_REQUEST) { opus_uint32 *v = va_arg(ap, opus_uint32 *); *v = nondet_uint(); }
   va_end(ap); return OPUS_OK;
}


typedef struct { OpusDecoder d; char sub_states[64]; } dec_block;
#ifndef VERIF_MAXLEN
#define VERIF_MAXLEN 6
#endif
#ifndef VERIF_MAXF
#define VERIF_MAXF 48      /* largest buffer / TOC duration considered, in units of 2.5 ms */
#endif
void h_decode_frame(void)
{
   dec_block *blk = malloc(sizeof(dec_block)); OpusDecoder *st, old; int len = nondet_int(), frame_size = nondet_int(), fec = nondet_bool(), ret, i, null_data = nondet_bool();
   unsigned char *data = NULL; opus_res *pcm; const int F2_5 = VERIF_FS / 400;
   __CPROVER_assume(blk != NULL); st = &blk->d;
   __CPROVER_assume(DEC_OK(st) && st->Fs == VERIF_FS && st->decode_gain == 0);
   __CPROVER_assume(st->celt_dec_offset >= (int)sizeof(OpusDecoder) && st->celt_dec_offset < (int)sizeof(OpusDecoder) + 64);
   __CPROVER_assume(st->silk_dec_offset >= (int)sizeof(OpusDecoder) && st->silk_dec_offset < (int)sizeof(OpusDecoder) + 64);
   __CPROVER_assume(st->mode == MODE_SILK_ONLY || st->mode == MODE_HYBRID || st->mode == MODE_CELT_ONLY);
   __CPROVER_assume(st->prev_mode == 0 || st->prev_mode == MODE_SILK_ONLY || st->prev_mode == MODE_HYBRID || st->prev_mode == MODE_CELT_ONLY);
   __CPROVER_assume(st->prev_redundancy == 0 || st->prev_redundancy == 1);
   __CPROVER_assume(st->bandwidth == 0 || (st->bandwidth >= OPUS_BANDWIDTH_NARROWBAND && st->bandwidth <= OPUS_BANDWIDTH_FULLBAND));
   /* what opus_decode_native establishes from the TOC: the mode can code this frame size and bandwidth */
   __CPROVER_assume(null_data || len <= 1 || DEC_TOC_OK(st));       /* required by the contract the decode_native groups call it through */
   __CPROVER_assume(1 <= frame_size && frame_size <= VERIF_MAXF * F2_5 && st->frame_size <= VERIF_MAXF * F2_5);
#ifdef VERIF_CH
   /* concrete shape per group: channels, TOC duration and output buffer are constants, so every scratch buffer of the real
      function has a constant size (symbolic-size arrays cost 25 M clauses and never finished); the buffer is an exact-size object */
   __CPROVER_assume(st->channels == VERIF_CH && st->frame_size == VERIF_TOCF * F2_5 && frame_size == VERIF_BUF);
   { static opus_res pcm_store[VERIF_BUF * VERIF_CH]; pcm = pcm_store; }
#else
   pcm = malloc((size_t)frame_size * st->channels * sizeof(opus_res)); __CPROVER_assume(pcm != NULL);
#endif
   __CPROVER_assume(0 <= len && len <= VERIF_MAXLEN);
#ifdef VERIF_EXTRA_ASSUME
   __CPROVER_assume(VERIF_EXTRA_ASSUME);        /* case split of a shape group */
#endif
   if (!null_data) { data = malloc(len > 0 ? len : 1); __CPROVER_assume(data != NULL); for (i = 0; i < VERIF_MAXLEN; i++) if (i < len) data[i] = nondet_uchar(); }
   old = *st; g_celt_bad = 0;
   ret = opus_decode_frame(st, data, len, pcm, frame_size, fec);
   __CPROVER_assert(ret == OPUS_BAD_ARG || ret == OPUS_BUFFER_TOO_SMALL || ret == OPUS_INTERNAL_ERROR || ret == OPUS_INVALID_PACKET || (0 < ret && ret <= frame_size),
                    "opus_decode_frame returns a documented error or 0 < n <= frame_size");
   __CPROVER_assert(DEC_OK(st) && st->Fs == old.Fs && st->channels == old.channels && st->frame_size == old.frame_size && st->last_packet_duration == old.last_packet_duration &&
                    st->mode == old.mode && st->stream_channels == old.stream_channels && st->decode_gain == old.decode_gain, "decoder invariant and configuration preserved");
#if !defined(VERIF_CH) || ((VERIF_BUF >= VERIF_TOCF * (VERIF_FS / 400)) && (!defined(VERIF_SPLIT) || VERIF_SPLIT == 3))
#define CANARY_REAL CANARY("real frame")
#else
#define CANARY_REAL          /* buffer smaller than the TOC duration: a real frame is refused, the canary would be unreachable by design */
#endif
#if !defined(VERIF_CH) || ((VERIF_BUF % (VERIF_FS / 400) == 0) && (!defined(VERIF_SPLIT) || VERIF_SPLIT != 3))
#define CANARY_PLC CANARY("concealment")
#else
#define CANARY_PLC
#endif
   if (data != NULL && len > 1 && ret > 0) { CANARY_REAL; __CPROVER_assert(ret == old.frame_size, "a real frame decodes to exactly the duration its TOC announced"); }
   if ((data == NULL || len <= 1) && frame_size % F2_5 == 0) {
      CANARY_PLC;
      __CPROVER_assert(ret > 0 || ret == OPUS_BUFFER_TOO_SMALL, "concealment of a multiple of 2.5 ms does not fail (given the callee contracts)");
      __CPROVER_assert(ret <= 0 || (ret % F2_5 == 0 && ret <= old.frame_size) || data == NULL, "concealment of a <=1-byte frame is a positive multiple of 2.5 ms, at most the TOC duration");
      __CPROVER_assert(!(data != NULL && len <= 1 && frame_size >= old.frame_size) || ret == old.frame_size, "a <=1-byte frame is concealed for exactly the TOC duration when the buffer allows it");
      __CPROVER_assert(ret <= 0 || ret % F2_5 == 0, "PLC returns a multiple of 2.5 ms");
      __CPROVER_assert(g_celt_bad == 0, "the MDCT layer is only ever asked for its own frame sizes (2.5/5/10/20 ms)");
   }
   __CPROVER_assert(frame_size >= F2_5 || ret == OPUS_BUFFER_TOO_SMALL, "less than 2.5 ms of space is refused");
   CANARY("after decode_frame");
}
