/* C11: opus_multistream_encoder_ctl (real src/opus_multistream_encoder.c): requests are validated and applied to every
 * stream or to none.  The per-stream encoders are modelled by the CONTRACT of opus_encoder_ctl for the request under
 * test (enforced on the real single-stream ctl in the enc_set_* groups): a miniature state with exactly the fields the
 * request touches.  Number of streams bounded (<= 3). */
#include "config.h"
#include "common.h"
#include <stdarg.h>
#include <stdlib.h>
#include "opus.h"
#include "opus_private.h"
struct OpusEncoder { int channels; int force_channels; int variable_duration; int complexity; };
#define VERIF_ENC_SIZE ((int)sizeof(struct OpusEncoder))
int opus_encoder_get_size(int channels) { return (channels == 1 || channels == 2) ? VERIF_ENC_SIZE : 0; }
/* contract stub of the single-stream ctl for the requests exercised below (C11 enc_set_force_channels / _complexity /
   _expert_frame_duration establish exactly this on the real function) */
int opus_encoder_ctl(OpusEncoder *st, int request, ...)
{
   va_list ap; opus_int32 v; int ret = OPUS_OK;
   va_start(ap, request);
   switch (request) {
   case OPUS_SET_FORCE_CHANNELS_REQUEST: v = va_arg(ap, opus_int32);
      if ((v < 1 || v > st->channels) && v != OPUS_AUTO) ret = OPUS_BAD_ARG; else st->force_channels = v; break;
   case OPUS_SET_COMPLEXITY_REQUEST: v = va_arg(ap, opus_int32);
      if (v < 0 || v > 10) ret = OPUS_BAD_ARG; else st->complexity = v; break;
   case OPUS_SET_EXPERT_FRAME_DURATION_REQUEST: v = va_arg(ap, opus_int32);
      if (v != OPUS_FRAMESIZE_ARG && (v < OPUS_FRAMESIZE_2_5_MS || v > OPUS_FRAMESIZE_120_MS)) ret = OPUS_BAD_ARG; else st->variable_duration = v; break;
   default: ret = OPUS_UNIMPLEMENTED; break;
   }
   va_end(ap); return ret;
}
#include "/repo/src/opus_multistream.c"
#include "/repo/src/opus_multistream_encoder.c"
VERIF_DEFINE_CELT_FATAL
#ifndef VERIF_ST
#define VERIF_ST 3
#endif
#define ENC_AT(base, s) ((struct OpusEncoder *)((char *)(base) + align(sizeof(OpusMSEncoder)) + (s) * align(VERIF_ENC_SIZE)))
#define SETUP_MS \
   int n = nondet_int(), c = nondet_int(), s; char *blk; OpusMSEncoder *st; struct OpusEncoder old[VERIF_ST]; \
   __CPROVER_assume(1 <= n && n <= VERIF_ST && 0 <= c && c <= n); \
   blk = malloc(align(sizeof(OpusMSEncoder)) + VERIF_ST * align(VERIF_ENC_SIZE)); __CPROVER_assume(blk != NULL); st = (OpusMSEncoder *)blk; \
   st->layout.nb_streams = n; st->layout.nb_coupled_streams = c; \
   for (s = 0; s < VERIF_ST; s++) { ENC_AT(blk, s)->channels = (s < c) ? 2 : 1; old[s] = *ENC_AT(blk, s); }

/* a per-stream setter either takes effect on every stream or on none */
void h_ms_set_force_channels(void)
{
   opus_int32 v = nondet_int(); int ret, k;
   SETUP_MS
   ret = opus_multistream_encoder_ctl(st, OPUS_SET_FORCE_CHANNELS_REQUEST, v);
   k = nondet_int(); __CPROVER_assume(0 <= k && k < n);
   if (ret == OPUS_OK) { CANARY("accepted"); __CPROVER_assert(ENC_AT(blk, k)->force_channels == v, "multistream SET_FORCE_CHANNELS accepted: every stream has the new value"); }
   else { CANARY("rejected"); __CPROVER_assert(ret == OPUS_BAD_ARG, "multistream SET_FORCE_CHANNELS: illegal value rejected with OPUS_BAD_ARG");
          /* the one input class listed in known_findings.txt is kept apart, so that any other partial update is still a violation */
          if (v == 2 && c > 0 && c < n) __CPROVER_assert(ENC_AT(blk, k)->force_channels == old[k].force_channels, "multistream SET_FORCE_CHANNELS(2) rejected by a layout with coupled and mono streams: no stream's setting has changed");
          else __CPROVER_assert(ENC_AT(blk, k)->force_channels == old[k].force_channels, "multistream SET_FORCE_CHANNELS rejected (any other value or layout): no stream's setting has changed"); }
}
void h_ms_set_complexity(void)
{
   opus_int32 v = nondet_int(); int ret, k;
   SETUP_MS
   ret = opus_multistream_encoder_ctl(st, OPUS_SET_COMPLEXITY_REQUEST, v);
   k = nondet_int(); __CPROVER_assume(0 <= k && k < n);
   __CPROVER_assert((ret == OPUS_OK) == (v >= 0 && v <= 10), "multistream SET_COMPLEXITY: accepted exactly for 0..10");
   if (ret == OPUS_OK) { CANARY("accepted"); __CPROVER_assert(ENC_AT(blk, k)->complexity == v, "accepted: every stream has the new value"); }
   else { CANARY("rejected"); __CPROVER_assert(ret == OPUS_BAD_ARG && ENC_AT(blk, k)->complexity == old[k].complexity, "rejected: BAD_ARG and no stream changed"); }
}
void h_ms_set_expert_frame_duration(void)
{
   opus_int32 v = nondet_int(), got = nondet_int(); int ret, oldvd;
   SETUP_MS
   oldvd = st->variable_duration;
   ret = opus_multistream_encoder_ctl(st, OPUS_SET_EXPERT_FRAME_DURATION_REQUEST, v);
   if (v == OPUS_FRAMESIZE_ARG || (v >= OPUS_FRAMESIZE_2_5_MS && v <= OPUS_FRAMESIZE_120_MS)) {
      CANARY("legal duration");
      __CPROVER_assert(ret == OPUS_OK && opus_multistream_encoder_ctl(st, OPUS_GET_EXPERT_FRAME_DURATION_REQUEST, &got) == OPUS_OK && got == v, "multistream SET_EXPERT_FRAME_DURATION: legal value accepted and read back");
   } else {
      CANARY("illegal duration");
      __CPROVER_assert(ret == OPUS_BAD_ARG, "multistream SET_EXPERT_FRAME_DURATION: a value that is not one of the OPUS_FRAMESIZE_* enumerants is rejected with OPUS_BAD_ARG");
      __CPROVER_assert(st->variable_duration == oldvd, "multistream SET_EXPERT_FRAME_DURATION rejected: the setting is unchanged");
   }
   __CPROVER_assert(opus_multistream_encoder_ctl(st, OPUS_GET_EXPERT_FRAME_DURATION_REQUEST, (opus_int32 *)NULL) == OPUS_BAD_ARG, "getter with a null pointer rejected");
}
