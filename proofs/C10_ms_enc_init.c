/* C10 / C11: creation of the multistream encoder (real src/opus_multistream_encoder.c + src/opus_multistream.c):
 * opus_multistream_encoder_get_size / _init (through the real static opus_multistream_encoder_init_impl) and the surround
 * path opus_multistream_surround_encoder_get_size / _init for mapping family 1.  "Invalid layouts are rejected at creation":
 * init succeeds exactly when the counts are legal, every mapping entry names an existing coded channel or 255, and every
 * stream has its input channel(s); the per-stream encoders are laid out back to back inside get_size() bytes, coupled
 * first; defaults are the documented ones; the LFE flag goes to the LFE stream only; the surround analysis memory that is
 * cleared lies inside the size the surround size query reports (exact-size object).
 * The single-stream encoder is a stub (sizes, recording init, recording ctl).  Bounded in the number of streams / channels. */
#include "config.h"
#include "common.h"
#include <stdarg.h>
#include <stdlib.h>
#include "opus.h"
#include "opus_private.h"
struct OpusEncoder { int channels; int lfe; };
#define VERIF_ENC_SIZE(ch) ((ch) == 1 ? 40 : 56)
#ifndef VERIF_ST
#define VERIF_ST 3
#endif
#ifndef VERIF_CH
#define VERIF_CH 4
#endif
int g_init_calls, g_init_ch[8], g_init_app[8], g_fail_at, g_fail_code, g_lfe_calls; opus_int32 g_init_fs[8]; char *g_init_ptr[8]; char *g_lfe_ptr;
int opus_encoder_get_size(int channels) { return (channels == 1 || channels == 2) ? VERIF_ENC_SIZE(channels) : 0; }
int opus_encoder_init(OpusEncoder *st, opus_int32 Fs, int channels, int application)
{
   if (g_init_calls < 8) { g_init_ptr[g_init_calls] = (char *)st; g_init_ch[g_init_calls] = channels; g_init_fs[g_init_calls] = Fs; g_init_app[g_init_calls] = application; }
   st->channels = channels; st->lfe = 0;
   return (g_init_calls++ == g_fail_at) ? g_fail_code : OPUS_OK;
}
int opus_encoder_ctl(OpusEncoder *st, int request, ...)
{
   va_list ap; opus_int32 v; va_start(ap, request);
   if (request == OPUS_SET_LFE_REQUEST) { v = va_arg(ap, opus_int32); if (v) { g_lfe_calls++; g_lfe_ptr = (char *)st; st->lfe = 1; } }
   va_end(ap); return OPUS_OK;
}
#include "/repo/celt/mathops.c"     /* isqrt32 */
#include "/repo/src/opus_multistream.c"
#include "/repo/src/opus_multistream_encoder.c"
VERIF_DEFINE_CELT_FATAL
#define ST_OFF(i, coupled) (align(sizeof(OpusMSEncoder)) + ((i) < (coupled) ? (i) : (coupled)) * align(VERIF_ENC_SIZE(2)) + ((i) < (coupled) ? 0 : (i) - (coupled)) * align(VERIF_ENC_SIZE(1)))

void h_ms_encoder_init(void)
{
   int streams = nondet_int(), coupled = nondet_int(), channels = nondet_int(), app = nondet_int(), size, ret, i, s; opus_int32 Fs = nondet_int();
   unsigned char mapping[256]; OpusMSEncoder *st; char *base;
   int counts_ok = !(streams < 1 || coupled > streams || coupled < 0);
   int args_ok = !((channels > 255) || (channels < 1) || (coupled > streams) || (streams < 1) || (coupled < 0) || (streams > 255 - coupled) || (streams + coupled > channels));
   __CPROVER_assume(streams <= VERIF_ST && channels <= VERIF_CH);
   size = opus_multistream_encoder_get_size(streams, coupled);
   __CPROVER_assert((size == 0) == !counts_ok, "get_size is 0 exactly for illegal stream counts");
   __CPROVER_assert(!counts_ok || size == ST_OFF(streams, coupled), "get_size = header + per-stream encoder sizes");
   g_init_calls = 0; g_lfe_calls = 0; g_fail_at = nondet_int(); g_fail_code = nondet_int(); __CPROVER_assume(g_fail_code < 0);
   if (!args_ok) {
      OpusMSEncoder dummy;
      ret = opus_multistream_encoder_init(&dummy, Fs, channels, streams, coupled, mapping, app);
      __CPROVER_assert(ret == OPUS_BAD_ARG && g_init_calls == 0, "init rejects illegal channel / stream counts (incl. more coded channels than input channels) before touching any stream");
      CANARY("illegal counts"); return;
   }
   for (i = 0; i < VERIF_CH; i++) mapping[i] = nondet_uchar();
   /* constant-size object (a symbolic-size one exhausts the solver's memory); that every stream state lies inside get_size() bytes is asserted explicitly below */
   base = malloc(ST_OFF(VERIF_ST, VERIF_ST)); __CPROVER_assume(base != NULL); st = (OpusMSEncoder *)base;
   ret = opus_multistream_encoder_init(st, Fs, channels, streams, coupled, mapping, app);
   {  int layout_ok = 1, fed;
      for (i = 0; i < VERIF_CH; i++) if (i < channels && mapping[i] != 255 && mapping[i] >= streams + coupled) layout_ok = 0;
      for (s = 0; s < VERIF_ST; s++) if (s < streams) {
         if (s < coupled) {
            fed = 0; for (i = 0; i < VERIF_CH; i++) if (i < channels && mapping[i] == 2 * s) fed = 1;
            if (!fed) layout_ok = 0;
            fed = 0; for (i = 0; i < VERIF_CH; i++) if (i < channels && mapping[i] == 2 * s + 1) fed = 1;
            if (!fed) layout_ok = 0;
         } else {
            fed = 0; for (i = 0; i < VERIF_CH; i++) if (i < channels && mapping[i] == s + coupled) fed = 1;
            if (!fed) layout_ok = 0;
         }
      }
      if (!layout_ok) { CANARY("invalid layout"); __CPROVER_assert(ret == OPUS_BAD_ARG && g_init_calls == 0, "a layout with an entry beyond the coded channels, or with a stream (side) that no input channel feeds, is rejected at creation"); return; }
      __CPROVER_assert(ret == OPUS_OK || (0 <= g_fail_at && g_fail_at < streams && ret == g_fail_code), "a valid layout is accepted unless a stream encoder fails to initialise, whose error is returned");
   }
   if (ret == OPUS_OK) {
      CANARY("init ok");
      __CPROVER_assert(g_init_calls == streams && g_lfe_calls == 0, "one encoder per stream is initialised, none flagged as LFE by the plain initialiser");
      __CPROVER_assert(st->layout.nb_channels == channels && st->layout.nb_streams == streams && st->layout.nb_coupled_streams == coupled, "layout counts stored as given");
      i = nondet_int(); __CPROVER_assume(0 <= i && i < channels);
      __CPROVER_assert(st->layout.mapping[i] == mapping[i], "mapping stored as given");
      __CPROVER_assert(st->bitrate_bps == OPUS_AUTO && st->variable_duration == OPUS_FRAMESIZE_ARG && st->application == app && st->lfe_stream == -1 && st->mapping_type == MAPPING_TYPE_NONE,
                       "documented defaults: bitrate OPUS_AUTO, frame duration from the argument, application as given, no LFE stream");
      for (s = 0; s < VERIF_ST; s++) if (s < streams) {
         __CPROVER_assert(g_init_ch[s] == (s < coupled ? 2 : 1) && g_init_fs[s] == Fs && g_init_app[s] == app, "coupled streams first (stereo), then mono, each with the caller's rate and application");
         __CPROVER_assert(g_init_ptr[s] - base == ST_OFF(s, coupled), "stream states are laid out back to back after the header");
         __CPROVER_assert(g_init_ptr[s] - base + VERIF_ENC_SIZE(g_init_ch[s]) <= size, "every stream state lies inside get_size() bytes");
      }
   }
}

/* surround path, mapping family 1 (1..8 channels): real tables, real validation, exact-size object */
void h_ms_surround_init(void)
{
   int channels = nondet_int(), app = nondet_int(), streams = nondet_int(), coupled = nondet_int(), size, ret, s; opus_int32 Fs = nondet_int();
   unsigned char mapping[8]; OpusMSEncoder *st; char *base;
#ifdef VERIF_SCH
   channels = VERIF_SCH;      /* one group per channel count: the cleared analysis memory then has a constant size (a memset of symbolic length exhausts the solver) */
#endif
   __CPROVER_assume(1 <= channels && channels <= 8);
   size = opus_multistream_surround_encoder_get_size(channels, 1);
   __CPROVER_assert(size > 0, "family 1 supports 1..8 channels");
   base = malloc(size); __CPROVER_assume(base != NULL); st = (OpusMSEncoder *)base;
   g_init_calls = 0; g_lfe_calls = 0; g_lfe_ptr = NULL; g_fail_at = -1; g_fail_code = -1;
   ret = opus_multistream_surround_encoder_init(st, Fs, channels, 1, &streams, &coupled, mapping, app);
   __CPROVER_assert(ret == OPUS_OK, "every family-1 layout the library itself chooses passes its own layout validation");
   __CPROVER_assert(g_init_calls == streams && 1 <= streams && streams <= 5, "one encoder per stream");
   __CPROVER_assert(size == ST_OFF(streams, coupled) + (channels > 2 ? channels * 121 * (int)sizeof(opus_val32) : 0), "surround size query = streams of the chosen layout + analysis memory beyond stereo");
   s = nondet_int(); __CPROVER_assume(0 <= s && s < streams);
   __CPROVER_assert(g_init_ptr[s] - base == ST_OFF(s, coupled) && g_init_ch[s] == (s < coupled ? 2 : 1), "stream states back to back, coupled first");
   if (channels >= 6) {
#if !defined(VERIF_SCH) || VERIF_SCH >= 6
      CANARY("layout with LFE");
#endif
      __CPROVER_assert(g_lfe_calls == 1 && g_lfe_ptr == g_init_ptr[streams - 1] && g_init_ch[streams - 1] == 1 && st->lfe_stream == streams - 1, "the LFE flag is set on the last (mono) stream's encoder and on no other"); }
   else __CPROVER_assert(g_lfe_calls == 0 && st->lfe_stream == -1, "no encoder is flagged as LFE in layouts without an LFE channel");
   __CPROVER_assert(st->mapping_type == (channels > 2 ? MAPPING_TYPE_SURROUND : MAPPING_TYPE_NONE), "surround analysis only beyond stereo");
   if (channels > 2) {
      int k = nondet_int(); __CPROVER_assume(0 <= k && k < channels * 121);
      __CPROVER_assert((char *)ms_get_preemph_mem(st) - base == ST_OFF(streams, coupled) + channels * 120 * (int)sizeof(opus_val32) && (char *)ms_get_window_mem(st) - base == ST_OFF(streams, coupled),
                       "analysis memories follow the stream states: window memory (120 per channel), then pre-emphasis memory (1 per channel)");
      __CPROVER_assert(ms_get_window_mem(st)[k] == 0, "surround analysis memory is cleared at creation");
   }
   CANARY("after surround init");
}
