/* C16 (last sentence): "Merging or splitting packets with the repacketizer carries each extension to the output frame
 * that holds its audio frame."  Selection and renumbering logic of the REAL opus_repacketizer_out_range_impl.
 * The repacketizer state is the one opus_repacketizer_cat leaves behind (C07 group cat_invariant): the padding of a
 * source packet of n frames sits on its first frame slot with padding_nb_frames = n, the other n-1 slots are empty.
 * The extension (de)serialisers are replaced by stubs that carry a symbolic list of (id, frame) per source packet
 * (their own contracts are the C16 round-trip groups); the generator stub records the list it is handed. */
#include "config.h"
#include "common.h"
#include "libc_frame.h"
#include "/repo/src/opus.c"
#ifndef VERIF_NF
#define VERIF_NF 4          /* frames held by the repacketizer */
#endif
#define MAXE 2              /* extensions per source packet */
static unsigned char g_padobj[VERIF_NF];                 /* &g_padobj[i] identifies the padding of the packet starting at slot i */
static int g_src_n[VERIF_NF], g_src_frame[VERIF_NF][MAXE];
static int g_rec_n, g_rec_nbframes, g_rec_frame[VERIF_NF * MAXE], g_rec_id[VERIF_NF * MAXE], g_rec_calls;
static int slot_of(const unsigned char *data) { return (int)(data - g_padobj); }
opus_int32 opus_packet_extensions_count(const unsigned char *data, opus_int32 len, int nb_frames)
{ (void)nb_frames; if (len == 0 || data == NULL) return 0; return g_src_n[slot_of(data)]; }
opus_int32 opus_packet_extensions_parse(const unsigned char *data, opus_int32 len, opus_extension_data *extensions, opus_int32 *nb_extensions, int nb_frames)
{
   int s, j;
   if (len == 0 || data == NULL) { *nb_extensions = 0; return 0; }
   s = slot_of(data);
   if (g_src_n[s] > *nb_extensions) return OPUS_BUFFER_TOO_SMALL;
   for (j = 0; j < g_src_n[s]; j++) { extensions[j].id = 32 + s * MAXE + j; extensions[j].frame = g_src_frame[s][j]; extensions[j].data = NULL; extensions[j].len = 0;
      __CPROVER_assert(g_src_frame[s][j] < nb_frames, "stub: source extension frame below the source packet's frame count"); }
   *nb_extensions = g_src_n[s];
   return 0;
}
opus_int32 opus_packet_extensions_generate(unsigned char *data, opus_int32 len, const opus_extension_data *extensions, opus_int32 nb_extensions, int nb_frames, int pad)
{
   int k; (void)pad;
   for (k = 0; k < nb_extensions; k++) if (extensions[k].frame < 0 || extensions[k].frame >= nb_frames) return OPUS_BAD_ARG;   /* as the real generator */
   if (2 * nb_extensions > len) return OPUS_BUFFER_TOO_SMALL;
   if (data != NULL) { g_rec_calls++; g_rec_n = nb_extensions; g_rec_nbframes = nb_frames;
      for (k = 0; k < nb_extensions && k < VERIF_NF * MAXE; k++) { g_rec_frame[k] = extensions[k].frame; g_rec_id[k] = extensions[k].id; } }
   return 2 * nb_extensions;
}
#include "/repo/src/opus_decoder.c"
#undef st
#ifdef VERIF_FIXED_ALLOC
/* the scratch list gets a fixed capacity (CBMC's byte-level encoding of a variable-length array of structs does not scale);
   the requested size is asserted to fit, and the parse stub checks every write against the capacity the real code passes */
#undef ALLOC
#define ALLOC(var, size, type) type var[VERIF_NF * MAXE + 1]; __CPROVER_assert((size) <= VERIF_NF * MAXE + 1, "scratch list request fits the fixed capacity of this harness")
#endif
#include "/repo/src/repacketizer.c"
#include <stdlib.h>
VERIF_DEFINE_CELT_FATAL
void h_out_range_split(void)
{
   OpusRepacketizer rp; int i, j, k, begin = nondet_int(), end = nondet_int(), expect = 0, aligned, s, a, found, foundframe; opus_int32 ret; unsigned char out[96];
   static unsigned char fr[VERIF_NF][2];
   rp.nb_frames = VERIF_NF; rp.toc = nondet_uchar(); rp.framesize = 20;
   /* source packets: slot i starts a packet of n frames (n >= 1 while frames remain) */
   for (i = 0; i < VERIF_NF; ) {
      int n = nondet_int(); __CPROVER_assume(1 <= n && n <= VERIF_NF - i);
      rp.paddings[i] = &g_padobj[i]; rp.padding_nb_frames[i] = n;
      g_src_n[i] = nondet_int(); __CPROVER_assume(0 <= g_src_n[i] && g_src_n[i] <= MAXE);
      rp.padding_len[i] = g_src_n[i] > 0 ? 2 * g_src_n[i] : 0;
      for (j = 0; j < MAXE; j++) { g_src_frame[i][j] = nondet_int(); __CPROVER_assume(0 <= g_src_frame[i][j] && g_src_frame[i][j] < n); }
      for (j = 1; j < n; j++) { rp.paddings[i + j] = NULL; rp.padding_len[i + j] = 0; rp.padding_nb_frames[i + j] = 0; g_src_n[i + j] = 0; }
      i += n;
   }
   for (i = 0; i < VERIF_NF; i++) { rp.len[i] = nondet_short(); __CPROVER_assume(0 <= rp.len[i] && rp.len[i] <= 2); rp.frames[i] = fr[i]; }
#ifdef VERIF_BEGIN
   begin = VERIF_BEGIN; end = VERIF_END;       /* one selection per group: the emission code is specialised by CBMC's constant propagation */
#endif
   __CPROVER_assume(0 <= begin && begin < end && end <= VERIF_NF);
   /* is the selection a union of whole source packets? */
   aligned = 1;
   for (i = 0; i < VERIF_NF; i++) if (rp.padding_nb_frames[i] > 0 && g_src_n[i] > 0) {
      int lo = i, hi = i + rp.padding_nb_frames[i];
      if (!((begin <= lo && hi <= end) || hi <= begin || end <= lo)) aligned = 0;
      for (j = 0; j < g_src_n[i]; j++) if (begin <= i + g_src_frame[i][j] && i + g_src_frame[i][j] < end) expect++;
   }
   g_rec_calls = 0; g_rec_n = 0;
#ifdef NO_CALL
   ret = nondet_int();
#else
   ret = opus_repacketizer_out_range_impl(&rp, begin, end, out, sizeof(out), 0, 0, NULL, 0);
#endif
   /* ghost choice of one source extension */
   s = nondet_int(); j = nondet_int(); __CPROVER_assume(0 <= s && s < VERIF_NF && 0 <= j && j < g_src_n[s]);
   a = s + g_src_frame[s][j];
   found = 0; foundframe = -1;
   for (k = 0; k < VERIF_NF * MAXE; k++) if (k < g_rec_n && g_rec_id[k] == 32 + s * MAXE + j) { found++; foundframe = g_rec_frame[k]; }
   if (aligned) {
      CANARY("whole source packets selected");
      __CPROVER_assert(ret > 0, "merging/selecting whole source packets succeeds (ample buffer)");
      __CPROVER_assert(g_rec_n == expect && (expect == 0 || (g_rec_calls == 1 && g_rec_nbframes == end - begin)), "whole packets: exactly the extensions of the selected frames are emitted, for a packet of end-begin frames");
      if (begin <= a && a < end) __CPROVER_assert(found == 1 && foundframe == a - begin, "whole packets: each extension is carried once, to the output frame that holds its audio frame");
      else __CPROVER_assert(found == 0, "whole packets: extensions of unselected frames are not emitted");
   } else {
#if !defined(VERIF_BEGIN) || !(VERIF_BEGIN == 0 && VERIF_END == VERIF_NF)
      CANARY("a source packet with extensions is split");
#endif
      __CPROVER_assert(ret > 0, "splitting a source packet that carries extensions succeeds (ample buffer)");
      if (ret > 0) {
         __CPROVER_assert(g_rec_n == expect, "split: exactly the extensions of the selected frames are emitted");
         if (begin <= a && a < end) __CPROVER_assert(found == 1 && foundframe == a - begin, "split: each extension is carried once, to the output frame that holds its audio frame");
         else __CPROVER_assert(found == 0, "split: extensions of unselected frames are not emitted");
      }
   }
}
