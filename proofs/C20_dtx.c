/* C20: the DTX decision automaton (decide_dtx_mode, static in src/opus_encoder.c) — exact transition function
 * and an inductive invariant over a ghost run length, which give the 200 ms / 400 ms bounds for every history. */
#include "config.h"
#include "common.h"
#include "opus_types.h"

static int decide_dtx_mode(int activity, int *nb_no_activity_ms_Q1, int frame_size_ms_Q1)
__CPROVER_requires(__CPROVER_is_fresh(nb_no_activity_ms_Q1, sizeof(int)))
__CPROVER_requires(0 <= *nb_no_activity_ms_Q1 && *nb_no_activity_ms_Q1 <= 1200 && 1 <= frame_size_ms_Q1 && frame_size_ms_Q1 <= 240)
__CPROVER_assigns(*nb_no_activity_ms_Q1)
__CPROVER_ensures(__CPROVER_return_value == 0 || __CPROVER_return_value == 1)
/* activity: counter cleared, frame coded normally */
__CPROVER_ensures(activity ==> (*nb_no_activity_ms_Q1 == 0 && __CPROVER_return_value == 0))
/* no activity: counter advances; DTX exactly while 200 ms < counter <= 600 ms; after 600 ms fall back to 200 ms (refresh packet) */
__CPROVER_ensures((!activity && __CPROVER_old(*nb_no_activity_ms_Q1) + frame_size_ms_Q1 <= 400) ==>
      (*nb_no_activity_ms_Q1 == __CPROVER_old(*nb_no_activity_ms_Q1) + frame_size_ms_Q1 && __CPROVER_return_value == 0))
__CPROVER_ensures((!activity && __CPROVER_old(*nb_no_activity_ms_Q1) + frame_size_ms_Q1 > 400 && __CPROVER_old(*nb_no_activity_ms_Q1) + frame_size_ms_Q1 <= 1200) ==>
      (*nb_no_activity_ms_Q1 == __CPROVER_old(*nb_no_activity_ms_Q1) + frame_size_ms_Q1 && __CPROVER_return_value == 1))
__CPROVER_ensures((!activity && __CPROVER_old(*nb_no_activity_ms_Q1) + frame_size_ms_Q1 > 1200) ==>
      (*nb_no_activity_ms_Q1 == 400 && __CPROVER_return_value == 0))
__CPROVER_ensures(0 <= *nb_no_activity_ms_Q1 && *nb_no_activity_ms_Q1 <= 1200)
;

#include "/repo/src/opus_encoder.c"
VERIF_DEFINE_CELT_FATAL

void h_decide_dtx_mode(void)
{
   int a, *c, f; decide_dtx_mode(a, c, f); CANARY("after decide_dtx_mode");
}

/* Legal frame durations 2.5 .. 120 ms in Q1 milliseconds (2*1000*frame_size/Fs) */
#define LEGAL_F(f) ((f)==5||(f)==10||(f)==20||(f)==40||(f)==80||(f)==120||(f)==160||(f)==200||(f)==240)
/* Inductive invariant over (counter c, ghost run length run of consecutive DTX frames in Q1 ms, ghost first =
   duration of the first DTX frame of the current run) */
#define DTX_INV(c,run,first) (0 <= (c) && (c) <= 1200 && 0 <= (run) && \
     ((run) > 0 ==> ((c) > 400 && LEGAL_F(first) && (run) <= (c) - 400 + (first) - 1)))

void h_dtx_step(void)
{
   int c = nondet_int(), run = nondet_int(), first = nondet_int(), f = nondet_int(), act = nondet_int();
   int c0, ret, run1, first1;
   __CPROVER_assume(DTX_INV(c, run, first) && LEGAL_F(f));
   c0 = c;
   ret = decide_dtx_mode(act, &c, f);
   run1 = ret ? run + f : 0;
   first1 = (ret && run == 0) ? f : first;
   __CPROVER_assert(DTX_INV(c, run1, first1), "DTX invariant is inductive over every call");
   __CPROVER_assert(run1 == 0 || run1 < 800 + first1, "a run of DTX packets exceeds 400 ms by less than one frame duration");
   __CPROVER_assert(ret ==> c >= 400, "in-DTX query predicate (counter >= 200 ms) holds on every DTX packet");
   __CPROVER_assert((!act && c0 <= 400 && c0 + f > 400) ==> ret == 1, "first DTX packet as soon as inactivity exceeds the 200 ms mark (within one frame)");
   __CPROVER_assert((!act && c0 + f <= 400) ==> ret == 0, "no DTX packet before the 200 ms mark");
   __CPROVER_assert(act ==> (ret == 0 && c == 0), "renewed activity is coded normally and clears the counter");
   __CPROVER_assert((ret == 0 && !act && c0 + f > 400) ==> (c == 400 && c0 + f > 1200), "a regular refresh packet is sent only after the 400 ms DTX run limit");
   CANARY("after dtx step");
}
