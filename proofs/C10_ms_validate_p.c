/* C10: opus_multistream_packet_validate (real body of src/opus_multistream_decoder.c) under the loop contract
 * ms_validate_streams: ANY number of streams (1..255), any packet length, any bytes.  A ghost index verif_KS stands
 * for "every stream": the parser stub records what it was asked for the verif_KS-th packet only.
 * The single-stream parser is a stub carrying the clauses enforced under C06 (frame count from the TOC, consumed length
 * inside the packet, == len in standard framing); the TOC helpers are the real ones from src/opus.c / src/opus_decoder.c. */
#include "config.h"
#include "common.h"
#include <stdlib.h>
#include "opus_parse.h"
#include "opus.h"
#include "opus_private.h"
int verif_KS;                       /* ghost: an arbitrary stream index */
int g_ncalls;                       /* ghost: number of parser calls so far */
int g_sdK, g_cntK, g_durK, g_offK, g_lenK; unsigned char g_tocK;   /* what the parser saw for stream verif_KS */
long long g_consumed;               /* ghost: bytes consumed by the packets parsed so far */
opus_int32 g_Fs; int g_len0;
const unsigned char *g_data0;
int opus_packet_get_samples_per_frame(const unsigned char *data, opus_int32 Fs);
int opus_packet_parse_impl(const unsigned char *data, opus_int32 len, int self_delimited, unsigned char *out_toc,
      const unsigned char *frames[48], opus_int16 size[48], int *payload_offset, opus_int32 *packet_offset,
      const unsigned char **padding, opus_int32 *padding_len)
{
   int ret = nondet_int(), po = nondet_int();
   (void)frames; (void)payload_offset; (void)padding; (void)padding_len; (void)out_toc;
   if (size == NULL || len < 0) return OPUS_BAD_ARG;
   if (len == 0) return OPUS_INVALID_PACKET;
   /* what the walk hands to the parser: a cursor inside the caller's packet with exactly the remaining length */
   __CPROVER_assert(__CPROVER_same_object(data, g_data0) && PO(data) == g_consumed && PO(data) + len == g_len0,
                    "each single-stream packet starts where the previous one ended and is offered all the remaining bytes");
   __CPROVER_assume(ret == OPUS_INVALID_PACKET || (1 <= ret && ret <= 48));
   if (ret < 0) return ret;
   if (RFC_CODE(data[0]) == 3 && len < 2) return OPUS_INVALID_PACKET;
   __CPROVER_assume(ret * RFC_SPF48(data[0]) <= 5760);
   __CPROVER_assume(ret == (RFC_CODE(data[0]) == 0 ? 1 : RFC_CODE(data[0]) < 3 ? 2 : (data[1] & 0x3F)));
   __CPROVER_assume((RFC_CODE(data[0]) == 3 ? 2 : 1) <= po && po <= len && (self_delimited || po == len));
   if (packet_offset) *packet_offset = po;
   if (g_ncalls == verif_KS) {
      g_sdK = self_delimited; g_cntK = ret; g_tocK = data[0]; g_offK = (int)PO(data); g_lenK = po;
      g_durK = ret * opus_packet_get_samples_per_frame(data, g_Fs);
   }
   g_ncalls++;
   g_consumed += po;
   return ret;
}
#define opus_packet_parse_impl opus_packet_parse_impl_REAL_UNUSED
#include "/repo/src/opus.c"
#undef opus_packet_parse_impl
#define opus_decoder_get_size opus_decoder_get_size_REAL_UNUSED
#define opus_decoder_init opus_decoder_init_REAL_UNUSED
#include "/repo/src/opus_decoder.c"
#undef opus_decoder_get_size
#undef opus_decoder_init
#undef st
int opus_decoder_get_size(int channels) { return channels == 1 ? 18260 : channels == 2 ? 27028 : 0; }
int opus_decoder_init(OpusDecoder *st, opus_int32 Fs, int channels) { (void)st; (void)Fs; (void)channels; return OPUS_OK; }
#include "/repo/src/opus_multistream.c"

/* loop contract of the stream walk.  The cursor stays inside the packet (offset + remaining length conserved), the
   parser has been called once per stream so far, and once stream verif_KS has been passed its duration is the common one. */
#undef  OPUS_VERIF_LOOP_ms_validate_streams
#define OPUS_VERIF_LOOP_ms_validate_streams \
  __CPROVER_assigns(s, count, toc, samples, packet_offset, data, len, __CPROVER_object_whole(size), \
                    g_ncalls, g_sdK, g_cntK, g_tocK, g_durK, g_offK, g_lenK, g_consumed) \
  __CPROVER_loop_invariant(0 <= s && s <= nb_streams && g_ncalls == s) \
  __CPROVER_loop_invariant(__CPROVER_same_object(data, g_data0) && 0 <= PO(data) && PO(data) == g_consumed && PO(data) + len == g_len0) \
  __CPROVER_loop_invariant(s > 0 ==> (samples > 0 && (long long)samples * 25 <= (long long)g_Fs * 3)) \
  __CPROVER_loop_invariant(s > 0 ==> len >= 0) \
  __CPROVER_loop_invariant((s > 0 && s == nb_streams) ==> len == 0) \
  __CPROVER_loop_invariant((0 <= verif_KS && verif_KS < s) ==> (g_durK == samples && g_sdK == (verif_KS != nb_streams - 1) && \
                           0 <= g_offK && g_lenK >= 1 && (long long)g_offK + g_lenK <= g_consumed && \
                           1 <= g_cntK && g_cntK <= 48 && g_durK == g_cntK * RFC_DUR400(g_tocK) * (g_Fs / 400))) \
  __CPROVER_decreases(nb_streams - s)
#include "/repo/src/opus_multistream_decoder.c"
VERIF_DEFINE_CELT_FATAL

void h_ms_validate_p(void)
{
   int len = nondet_int(), n = nondet_int(), ret; opus_int32 Fs = nondet_int(); unsigned char *data;
   int k = nondet_int();
   __CPROVER_assume(Fs == 8000 || Fs == 12000 || Fs == 16000 || Fs == 24000 || Fs == 48000);
   __CPROVER_assume(1 <= n && n <= 255 && 0 <= len);
   __CPROVER_assume(0 <= k && k < n);
   data = malloc(len > 0 ? len : 1); __CPROVER_assume(data != NULL);
   g_ncalls = 0; g_consumed = 0; g_Fs = Fs; g_len0 = len; g_data0 = data; verif_KS = k;
   ret = opus_multistream_packet_validate(data, len, n, Fs);
   __CPROVER_assert(ret == OPUS_INVALID_PACKET || (ret > 0 && (long long)ret * 25 <= (long long)Fs * 3), "result is OPUS_INVALID_PACKET or a duration of at most 120 ms");
   if (ret > 0) {
      CANARY("valid multistream packet");
      __CPROVER_assert(g_ncalls == n, "one single-stream packet per stream");
      __CPROVER_assert(g_sdK == (k != n - 1), "every stream but the last uses self-delimited framing, the last one standard framing");
      __CPROVER_assert(g_durK == ret, "every stream has the same duration (frame count x samples per frame), equal to the result");
      __CPROVER_assert(g_cntK * RFC_DUR400(g_tocK) * (Fs / 400) == ret, "the duration is the stream's frame count times the frame duration of its TOC (RFC 6716 table 2)");
      __CPROVER_assert(0 <= g_offK && (long long)g_offK + g_lenK <= len, "every stream's packet lies inside the multistream packet");
      __CPROVER_assert(g_consumed == len, "the streams' packets tile the multistream packet: nothing is left over");
   }
   CANARY("after ms validate");
}
