/* C11/C12: opus_decoder_ctl, opus_decoder_init / _create / _get_size (real src/opus_decoder.c), symbolic state and arguments. */
#include "config.h"
#include "common.h"
#include <stdarg.h>
#include <stdlib.h>
#include "/repo/src/opus_decoder.c"
VERIF_DEFINE_CELT_FATAL

/* trusted stubs for the sub-decoders (other TUs): sizes as in the shipped build, init/reset succeed and stay inside their block */
static int verif_celt_calls, verif_celt_last_req, verif_silk_reset_calls;
#define VERIF_SILK_SIZE 8544
#define VERIF_CELT_SIZE(ch) (ch == 1 ? 9000 : 17000)
int celt_decoder_ctl(CELTDecoder *st, int request, ...) { (void)st; verif_celt_calls++; verif_celt_last_req = request; return OPUS_OK; }
int silk_Get_Decoder_Size(opus_int *decSizeBytes) { *decSizeBytes = VERIF_SILK_SIZE; return 0; }
int celt_decoder_get_size(int channels) { return VERIF_CELT_SIZE(channels); }
opus_int silk_InitDecoder(void *decState) { (void)decState; return 0; }
opus_int silk_ResetDecoder(void *decState) { (void)decState; verif_silk_reset_calls++; return 0; }
int celt_decoder_init(CELTDecoder *st, opus_int32 sampling_rate, int channels) { (void)st; (void)sampling_rate; (void)channels; return OPUS_OK; }

#define VERIF_EXTRA 64
typedef struct { OpusDecoder d; char sub_states[VERIF_EXTRA]; } dec_block;
#define st (blk.d)
#define CFG_EQ(a, b) ((a).celt_dec_offset == (b).celt_dec_offset && (a).silk_dec_offset == (b).silk_dec_offset && (a).channels == (b).channels && \
   (a).Fs == (b).Fs && (a).DecControl.nChannelsAPI == (b).DecControl.nChannelsAPI && (a).DecControl.API_sampleRate == (b).DecControl.API_sampleRate && \
   (a).DecControl.nChannelsInternal == (b).DecControl.nChannelsInternal && (a).DecControl.internalSampleRate == (b).DecControl.internalSampleRate && \
   (a).DecControl.payloadSize_ms == (b).DecControl.payloadSize_ms && (a).DecControl.prevPitchLag == (b).DecControl.prevPitchLag && (a).arch == (b).arch)
#define STREAM_EQ(a, b) ((a).stream_channels == (b).stream_channels && (a).bandwidth == (b).bandwidth && (a).mode == (b).mode && (a).prev_mode == (b).prev_mode && \
   (a).frame_size == (b).frame_size && (a).prev_redundancy == (b).prev_redundancy && (a).last_packet_duration == (b).last_packet_duration && (a).rangeFinal == (b).rangeFinal)
#define SYMBOLIC_DECODER \
   dec_block blk; OpusDecoder old; \
   __CPROVER_assume(st.channels == 1 || st.channels == 2); \
   __CPROVER_assume(st.Fs == 8000 || st.Fs == 12000 || st.Fs == 16000 || st.Fs == 24000 || st.Fs == 48000); \
   __CPROVER_assume(st.celt_dec_offset >= (int)sizeof(OpusDecoder) && st.celt_dec_offset < (int)sizeof(OpusDecoder) + VERIF_EXTRA); \
   __CPROVER_assume(st.silk_dec_offset >= (int)sizeof(OpusDecoder) && st.silk_dec_offset < (int)sizeof(OpusDecoder) + VERIF_EXTRA); \
   old = st;

void h_dec_set_gain(void)
{
   opus_int32 v = nondet_int(), got = nondet_int(); int ret;
   SYMBOLIC_DECODER
   ret = opus_decoder_ctl(&st, OPUS_SET_GAIN_REQUEST, v);
   if (v >= -32768 && v <= 32767) {
      CANARY("legal gain");
      __CPROVER_assert(ret == OPUS_OK, "SET_GAIN: legal value accepted");
      __CPROVER_assert(opus_decoder_ctl(&st, OPUS_GET_GAIN_REQUEST, &got) == OPUS_OK && got == v, "GET_GAIN reports the value that was set");
      __CPROVER_assert(CFG_EQ(st, old) && STREAM_EQ(st, old) && st.complexity == old.complexity, "SET_GAIN changes nothing else");
   } else {
      CANARY("illegal gain");
      __CPROVER_assert(ret == OPUS_BAD_ARG, "SET_GAIN: value outside [-32768,32767] rejected");
      __CPROVER_assert(CFG_EQ(st, old) && STREAM_EQ(st, old) && st.decode_gain == old.decode_gain && st.complexity == old.complexity, "rejected SET_GAIN changes nothing");
   }
   __CPROVER_assert(opus_decoder_ctl(&st, OPUS_GET_GAIN_REQUEST, (opus_int32 *)NULL) == OPUS_BAD_ARG, "GET_GAIN with a null pointer rejected");
}

void h_dec_set_complexity(void)
{
   opus_int32 v = nondet_int(), got = nondet_int(); int ret;
   SYMBOLIC_DECODER
   ret = opus_decoder_ctl(&st, OPUS_SET_COMPLEXITY_REQUEST, v);
   if (v >= 0 && v <= 10) {
      CANARY("legal complexity");
      __CPROVER_assert(ret == OPUS_OK, "decoder SET_COMPLEXITY: legal value accepted");
      __CPROVER_assert(opus_decoder_ctl(&st, OPUS_GET_COMPLEXITY_REQUEST, &got) == OPUS_OK && got == v, "decoder GET_COMPLEXITY reports it");
      __CPROVER_assert(CFG_EQ(st, old) && STREAM_EQ(st, old) && st.decode_gain == old.decode_gain, "decoder SET_COMPLEXITY changes nothing else");
   } else {
      CANARY("illegal complexity");
      __CPROVER_assert(ret == OPUS_BAD_ARG && CFG_EQ(st, old) && STREAM_EQ(st, old) && st.decode_gain == old.decode_gain && st.complexity == old.complexity,
                       "decoder SET_COMPLEXITY outside 0..10 rejected, nothing changes");
   }
}

void h_dec_getters_unknown(void)
{
   opus_int32 got = nondet_int(); opus_uint32 ugot; int req = nondet_int(), ret;
   SYMBOLIC_DECODER
   __CPROVER_assert(opus_decoder_ctl(&st, OPUS_GET_SAMPLE_RATE_REQUEST, &got) == OPUS_OK && got == old.Fs, "GET_SAMPLE_RATE");
   __CPROVER_assert(opus_decoder_ctl(&st, OPUS_GET_BANDWIDTH_REQUEST, &got) == OPUS_OK && got == old.bandwidth, "GET_BANDWIDTH");
   __CPROVER_assert(opus_decoder_ctl(&st, OPUS_GET_LAST_PACKET_DURATION_REQUEST, &got) == OPUS_OK && got == old.last_packet_duration, "GET_LAST_PACKET_DURATION");
   __CPROVER_assert(opus_decoder_ctl(&st, OPUS_GET_FINAL_RANGE_REQUEST, &ugot) == OPUS_OK && ugot == old.rangeFinal, "GET_FINAL_RANGE");
   __CPROVER_assert(opus_decoder_ctl(&st, OPUS_GET_SAMPLE_RATE_REQUEST, (opus_int32 *)NULL) == OPUS_BAD_ARG, "null pointer rejected");
   __CPROVER_assert(opus_decoder_ctl(&st, OPUS_GET_BANDWIDTH_REQUEST, (opus_int32 *)NULL) == OPUS_BAD_ARG, "null pointer rejected");
   __CPROVER_assert(opus_decoder_ctl(&st, OPUS_GET_LAST_PACKET_DURATION_REQUEST, (opus_int32 *)NULL) == OPUS_BAD_ARG, "null pointer rejected");
   __CPROVER_assert(opus_decoder_ctl(&st, OPUS_GET_FINAL_RANGE_REQUEST, (opus_uint32 *)NULL) == OPUS_BAD_ARG, "null pointer rejected");
   __CPROVER_assert(opus_decoder_ctl(&st, OPUS_GET_PITCH_REQUEST, (opus_int32 *)NULL) == OPUS_BAD_ARG, "null pointer rejected");
   /* encoder-only and undefined requests */
   __CPROVER_assume(req != OPUS_GET_BANDWIDTH_REQUEST && req != OPUS_SET_COMPLEXITY_REQUEST && req != OPUS_GET_COMPLEXITY_REQUEST && req != OPUS_GET_FINAL_RANGE_REQUEST &&
                    req != OPUS_RESET_STATE && req != OPUS_GET_SAMPLE_RATE_REQUEST && req != OPUS_GET_PITCH_REQUEST && req != OPUS_GET_GAIN_REQUEST &&
                    req != OPUS_SET_GAIN_REQUEST && req != OPUS_GET_LAST_PACKET_DURATION_REQUEST && req != OPUS_SET_PHASE_INVERSION_DISABLED_REQUEST &&
                    req != OPUS_GET_PHASE_INVERSION_DISABLED_REQUEST);
   ret = opus_decoder_ctl(&st, req, &got);
   __CPROVER_assert(ret == OPUS_UNIMPLEMENTED, "request the decoder does not define => OPUS_UNIMPLEMENTED");
   __CPROVER_assert(CFG_EQ(st, old) && STREAM_EQ(st, old) && st.decode_gain == old.decode_gain && st.complexity == old.complexity, "unknown request changes nothing");
   CANARY("after decoder getters");
}

/* C12: after OPUS_RESET_STATE every field from OPUS_DECODER_RESET_START on has the value opus_decoder_init gives
   for the same (Fs, channels); nothing before it changes */
void h_dec_reset(void)
{
   SYMBOLIC_DECODER
   __CPROVER_assert(opus_decoder_ctl(&st, OPUS_RESET_STATE) == OPUS_OK, "RESET_STATE succeeds");
   __CPROVER_assert(CFG_EQ(st, old) && st.decode_gain == old.decode_gain && st.complexity == old.complexity, "RESET_STATE keeps every setting");
   __CPROVER_assert(st.stream_channels == old.channels && st.frame_size == old.Fs / 400 && st.bandwidth == 0 && st.mode == 0 && st.prev_mode == 0 &&
                    st.prev_redundancy == 0 && st.last_packet_duration == 0 && st.rangeFinal == 0 && st.softclip_mem[0] == 0 && st.softclip_mem[1] == 0,
                    "RESET_STATE leaves the stream state as opus_decoder_init does");
   __CPROVER_assert(verif_celt_last_req == OPUS_RESET_STATE && verif_silk_reset_calls >= 1, "both sub-decoders are reset");
   CANARY("after reset");
}

/* init / get_size / create: argument validation, layout, allocation failure */
void h_dec_init(void)
{
   opus_int32 Fs = nondet_int(); int ch = nondet_int(), ret, size;
   char *mem;
   int legal = (Fs == 48000 || Fs == 24000 || Fs == 16000 || Fs == 12000 || Fs == 8000) && (ch == 1 || ch == 2);
   size = opus_decoder_get_size(ch);
   __CPROVER_assert((size == 0) == !(ch == 1 || ch == 2), "get_size is 0 exactly for unsupported channel counts");
   if (!legal) {
      OpusDecoder dummy, before; before = dummy;
      ret = opus_decoder_init(&dummy, Fs, ch);
      __CPROVER_assert(ret == OPUS_BAD_ARG, "init rejects unsupported rate / channels");
      __CPROVER_assert(CFG_EQ(dummy, before) && STREAM_EQ(dummy, before), "rejected init writes nothing");
      CANARY("illegal init");
   } else {
      OpusDecoder *d;
      mem = malloc(size); __CPROVER_assume(mem != NULL);
      d = (OpusDecoder *)mem;
      ret = opus_decoder_init(d, Fs, ch);
      __CPROVER_assert(ret == OPUS_OK, "init accepts every supported rate / channel count");
      __CPROVER_assert(d->Fs == Fs && d->channels == ch && d->stream_channels == ch && d->frame_size == Fs / 400 && d->decode_gain == 0 && d->complexity == 0, "init state");
      __CPROVER_assert(d->silk_dec_offset >= (int)sizeof(OpusDecoder) && d->silk_dec_offset % 8 == 0 && d->celt_dec_offset >= d->silk_dec_offset + VERIF_SILK_SIZE &&
                       d->celt_dec_offset % 8 == 0 && d->celt_dec_offset + VERIF_CELT_SIZE(ch) <= size,
                       "sub-states are placed at aligned, disjoint offsets inside get_size() bytes (offsets, not pointers: the state is position independent)");
      CANARY("legal init");
   }
}

void h_dec_create(void)
{
   opus_int32 Fs = nondet_int(); int ch = nondet_int(), err = 12345; OpusDecoder *d;
   int legal = (Fs == 48000 || Fs == 24000 || Fs == 16000 || Fs == 12000 || Fs == 8000) && (ch == 1 || ch == 2);
   d = opus_decoder_create(Fs, ch, nondet_bool() ? &err : NULL);
   if (!legal) __CPROVER_assert(d == NULL && (err == OPUS_BAD_ARG || err == 12345), "create rejects unsupported arguments with OPUS_BAD_ARG");
   else __CPROVER_assert((d != NULL && (err == OPUS_OK || err == 12345)) || (d == NULL && (err == OPUS_ALLOC_FAIL || err == 12345)), "create succeeds or reports allocation failure");
   if (d != NULL) { CANARY("created"); opus_decoder_destroy(d); }
   CANARY("after create");
}
