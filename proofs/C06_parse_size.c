/* C06: parse_size / encode_size — loop-free helpers, full domain. */
#include "common.h"
#include "config.h"
#include "opus_types.h"

static int parse_size(const unsigned char *data, opus_int32 len, opus_int16 *size)
__CPROVER_requires(__CPROVER_is_fresh(size, sizeof(*size)))
__CPROVER_requires(len < 1 || __CPROVER_is_fresh(data, len >= 2 ? 2 : 1))
__CPROVER_assigns(*size)
__CPROVER_ensures(__CPROVER_return_value == -1 || __CPROVER_return_value == 1 || __CPROVER_return_value == 2)
__CPROVER_ensures(__CPROVER_return_value == -1 ==> *size == -1)
__CPROVER_ensures(__CPROVER_return_value == -1 <==> (len < 1 || (data[0] >= 252 && len < 2)))
__CPROVER_ensures(__CPROVER_return_value == 1 ==> (*size == data[0] && data[0] < 252))
__CPROVER_ensures(__CPROVER_return_value == 2 ==> (*size == 4*data[1] + data[0] && data[0] >= 252))
__CPROVER_ensures(__CPROVER_return_value > 0 ==> (__CPROVER_return_value <= len && 0 <= *size && *size <= 1275))
;

#include "/repo/src/opus.c"
VERIF_DEFINE_CELT_FATAL

void h_parse_size(void)
{
   const unsigned char *data; opus_int32 len; opus_int16 *size;
   parse_size(data, len, size);
   CANARY("after parse_size");
}

/* encode_size is the inverse of parse_size on 0..1275 (lemma harness, real bodies). */
void h_size_roundtrip(void)
{
   unsigned char buf[2]; opus_int16 sz; int s = nondet_int(); int n, m;
   __CPROVER_assume(0 <= s && s <= 1275);
   n = encode_size(s, buf);
   __CPROVER_assert(n == (s < 252 ? 1 : 2), "encode_size: 1 byte below 252, else 2");
   m = parse_size(buf, n, &sz);
   __CPROVER_assert(m == n && sz == s, "parse_size(encode_size(s)) == s");
   CANARY("after roundtrip");
}
