_B = dict(cls='B', tu='C07_repack_b.c', dfcc=False, canary='real', functions=['opus_repacketizer_cat_impl', 'opus_repacketizer_out_range_impl', 'opus_packet_pad_impl',
          'opus_packet_pad', 'opus_packet_unpad', 'opus_packet_parse_impl', 'encode_size', 'opus_packet_get_nb_frames'])
GROUPS = []
for (_a, _b, _tier) in ((2, 2, 'thorough'), (3, 2, 'thorough'), (3, 3, 'thorough'), (4, 3, 'thorough'), (5, 4, 'thorough')):
    GROUPS.append(dict(_B, name='repack_two_%d_%d' % (_a, _b), entry='h_repack_two', unwind=6, timeout=3600, mem_gb=20, tier=_tier,
        defines=['-DVERIF_L1=%d' % _a, '-DVERIF_L2=%d' % _b], bounds='packets of exactly %d and %d bytes (all bytes symbolic), <= 2 frames each, no padding in the inputs' % (_a, _b),
        what='cat x2 -> out -> parse: accept/reject conditions, frames preserved byte for byte and in order, output <= maxlen or refused'))
for (_a, _tier) in ((2, 'thorough'), (3, 'thorough'), (4, 'thorough'), (5, 'thorough')):
    GROUPS.append(dict(_B, name='pad_unpad_%d' % _a, entry='h_pad_unpad', unwind=6, timeout=3600, mem_gb=20, tier=_tier,
        defines=['-DVERIF_L1=%d' % _a], bounds='packet of exactly %d bytes, <= 2 frames, new_len <= len+3' % _a,
        what='pad to new_len keeps frames, exact length; unpad canonical and idempotent'))
_SAMEOBJ = (r'same object violation in ptr - frames', 'OPUS_MOVE evaluates 0*((dst)-(src)) as a compile-time type check; with distinct output and frame buffers CBMC flags the pointer subtraction (the value is multiplied by 0 and never used)')
_O = dict(cls='F', ignore=[_SAMEOBJ], tu='C07_out_range.c', entry='h_out_range', dfcc=False, canary='real', expect_canaries=2, functions=['opus_repacketizer_out_range_impl', 'encode_size'],
          trusted=['frame-only memmove stub (stubs/libc_frame.h): copied content is covered only by the bounded byte-for-byte groups'])
for _c in (1, 2, 3):
    GROUPS.append(dict(_O, name='out_range_size_c%d' % _c, unwind=_c + 4, timeout=1800, defines=['-DVERIF_COUNT=%d' % _c], mem_gb=20,
        bounds='selected range of exactly %d frames (inside a repacketizer holding up to 2 more), every frame length 0..1275 symbolic, any maxlen, both framings, no padding' % _c,
        what='size accounting of out_range against maxlen: result <= maxlen, refused exactly when the canonical packet does not fit, exact canonical length, 1277 bytes per frame suffice'))
GROUPS.append(dict(_O, cls='B', name='out_range_pad_c2', tier='thorough', unwind=44, timeout=3600, defines=['-DVERIF_COUNT=2', '-DVERIF_PAD=1', '-DVERIF_MAXLEN_CAP=40', '-DVERIF_FRAME_CAP=8'], mem_gb=20,
    bounds='2 frames of <= 8 bytes, maxlen <= 40, padding requested', what='padded output has exactly maxlen bytes or is refused'))
GROUPS.append(dict(name='cat_invariant', cls='P', tu='C07_cat.c', entry='h_cat', canary='real', expect_canaries=2, unwind=2, timeout=1800, mem_gb=20,
    functions=['opus_repacketizer_cat_impl', 'opus_packet_get_nb_frames', 'opus_packet_get_samples_per_frame'],
    trusted=['stub of opus_packet_parse_impl carrying exactly the clauses E2-E9 enforced on the real parser under C06 (writes through the interior pointers it is given)'],
    what='cat on an arbitrary invariant-satisfying repacketizer and arbitrary packet: accept/reject conditions, invariant, contents unchanged on rejection, array writes inside the 48-entry arrays'))
META = {'cex': {'self': True, 'timeout': 1800}}

_MSP = dict(cls='P', tu='C07_ms_pad.c', canary='real', unwind=1, timeout=1800, mem_gb=16,
            replace_calls=['opus_repacketizer_cat_impl:verif_cat_impl', 'opus_repacketizer_out_range_impl:verif_out_range_impl', 'opus_packet_pad:verif_packet_pad'],
            trusted=['parser stub carrying the C06 clauses (consumed length inside the packet, == len in standard framing)',
                     'stubs of opus_repacketizer_cat_impl / opus_repacketizer_out_range_impl / opus_packet_pad: they assert what they are handed and assume the frame contract discharged in the cat / out_range groups; '
                     'one clause is trusted (bounded evidence only, pad_unpad_* groups): the canonical re-encoding of one packet is not longer than that packet'])
GROUPS.append(dict(_MSP, name='ms_unpad', entry='h_ms_unpad', expect_canaries=2, unwind_fn={'opus_multistream_packet_unpad': 49}, functions=['opus_multistream_packet_unpad'],
    what='multistream unpad under its loop contract, any number of streams and any length: every stream parsed in its framing at the position where the previous one ended, re-emitted in place without padding '
         'inside the caller\'s buffer and never after its old position; result = bytes written, in (0, len]'))
GROUPS.append(dict(_MSP, name='ms_pad', entry='h_ms_pad', expect_canaries=2, functions=['opus_multistream_packet_pad'],
    what='multistream pad under its loop contract: argument rules (nothing touched for len < 1, len >= new_len), the first n-1 streams skipped in self-delimited framing, the last stream handed to opus_packet_pad growing by exactly new_len - len'))
