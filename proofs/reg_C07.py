_B = dict(cls='B', tu='C07_repack_b.c', dfcc=False, canary='real', functions=['opus_repacketizer_cat_impl', 'opus_repacketizer_out_range_impl', 'opus_packet_pad_impl',
          'opus_packet_pad', 'opus_packet_unpad', 'opus_packet_parse_impl', 'encode_size', 'opus_packet_get_nb_frames'])
GROUPS = [
 dict(_B, name='repack_two_b', entry='h_repack_two', unwind=8, timeout=1800, mem_gb=20, bounds='2 packets of <= 5 bytes, <= 3 frames each, no padding in the inputs',
      what='cat x2 -> out -> parse: accept/reject conditions, frames preserved byte for byte and in order, output <= maxlen or refused'),
 dict(_B, name='pad_unpad_b', entry='h_pad_unpad', unwind=8, timeout=1800, mem_gb=20, bounds='packet <= 5 bytes, <= 3 frames, new_len <= len+4',
      what='pad to new_len keeps frames, exact length; unpad canonical and idempotent'),
]
META = {}
