/* C11 "creation and init reject unsupported rates, channel counts and applications and report allocation failure without leaking
 * or crashing" + the base case of the encoder state invariant (contracts/encoder_inv.h): the REAL opus_encoder_init /
 * opus_encoder_get_size / opus_encoder_create / opus_encoder_destroy (src/opus_encoder.c) for every argument value.
 * The SILK / CELT / analysis initialisers are stubs (assumed: they succeed or fail, and write only their own sub-state). */
#include "config.h"
#include "common.h"
#include <stdarg.h>
#include <stdlib.h>
#include "/repo/src/opus_encoder.c"
#include "/repo/silk/lin2log.c"
#include "encoder_inv.h"
VERIF_DEFINE_CELT_FATAL
#define SILK_SZ 48
#define CELT_SZ 40
static int g_silk_fail, g_celt_fail, g_size_fail;
opus_int silk_Get_Encoder_Size(opus_int *encSizeBytes) { if (g_size_fail) return -1; *encSizeBytes = SILK_SZ; return 0; }
int celt_encoder_get_size(int channels) { (void)channels; return CELT_SZ; }
opus_int silk_InitEncoder(void *encState, int arch, silk_EncControlStruct *encStatus)
{ (void)arch; (void)encStatus; __CPROVER_assert(__CPROVER_w_ok(encState, SILK_SZ), "silk_InitEncoder gets the SILK sub-state inside the object"); return g_silk_fail ? -1 : 0; }
int celt_encoder_init(CELTEncoder *st, opus_int32 sampling_rate, int channels, int arch)
{ (void)sampling_rate; (void)channels; (void)arch; __CPROVER_assert(__CPROVER_w_ok(st, CELT_SZ), "celt_encoder_init gets the CELT sub-state inside the object"); return g_celt_fail ? OPUS_INTERNAL_ERROR : OPUS_OK; }
int celt_encoder_ctl(CELTEncoder *OPUS_RESTRICT st, int request, ...) { (void)st; (void)request; return OPUS_OK; }
void tonality_analysis_init(TonalityAnalysisState *tonal, opus_int32 Fs) { (void)tonal; (void)Fs; }
void tonality_analysis_reset(TonalityAnalysisState *tonal) { (void)tonal; }

#define LEGAL(Fs, ch, app) (((Fs) == 48000 || (Fs) == 24000 || (Fs) == 16000 || (Fs) == 12000 || (Fs) == 8000) && ((ch) == 1 || (ch) == 2) && \
   ((app) == OPUS_APPLICATION_VOIP || (app) == OPUS_APPLICATION_AUDIO || (app) == OPUS_APPLICATION_RESTRICTED_LOWDELAY))

void h_enc_init(void)
{
   opus_int32 Fs = nondet_int(); int ch = nondet_int(), app = nondet_int(), ret, size; OpusEncoder *st;
   g_silk_fail = nondet_int() & 1; g_celt_fail = nondet_int() & 1; g_size_fail = 0;
   size = opus_encoder_get_size(ch);
   __CPROVER_assert((ch == 1 || ch == 2) ? size == (int)(align(sizeof(OpusEncoder)) + align(SILK_SZ) + CELT_SZ) : size == 0, "get_size: 0 for an unsupported channel count, else OpusEncoder + aligned sub-states");
   st = malloc(size > 0 ? size : 1); __CPROVER_assume(st != NULL);
   ret = opus_encoder_init(st, Fs, ch, app);
   if (!LEGAL(Fs, ch, app)) { CANARY("illegal arguments"); __CPROVER_assert(ret == OPUS_BAD_ARG, "init rejects an unsupported rate, channel count or application with OPUS_BAD_ARG"); return; }
   if (g_silk_fail || g_celt_fail) { __CPROVER_assert(ret == OPUS_INTERNAL_ERROR, "a failing sub-encoder initialiser is reported as OPUS_INTERNAL_ERROR"); return; }
   CANARY("initialised");
   __CPROVER_assert(ret == OPUS_OK, "init succeeds for supported arguments");
   __CPROVER_assert(st->Fs == Fs && st->channels == ch && st->application == app, "init stores the requested configuration");
   __CPROVER_assert(st->silk_enc_offset == (int)align(sizeof(OpusEncoder)) && st->celt_enc_offset == st->silk_enc_offset + (int)align(SILK_SZ) && st->celt_enc_offset + CELT_SZ <= size, "sub-states at aligned, disjoint offsets inside get_size()");
   __CPROVER_assert(settings_ok(st), "init establishes the settings part of the encoder invariant (documented defaults)");
   __CPROVER_assert(stream_ok(st), "init establishes the stream part of the encoder invariant");
   __CPROVER_assert(st->user_bitrate_bps == OPUS_AUTO && st->use_vbr == 1 && st->vbr_constraint == 1 && st->force_channels == OPUS_AUTO && st->user_bandwidth == OPUS_AUTO &&
                    st->max_bandwidth == OPUS_BANDWIDTH_FULLBAND && st->signal_type == OPUS_AUTO && st->lsb_depth == 24 && st->variable_duration == OPUS_FRAMESIZE_ARG &&
                    st->use_dtx == 0 && st->silk_mode.complexity == 9 && st->silk_mode.useInBandFEC == 0 && st->silk_mode.packetLossPercentage == 0 && st->first == 1, "documented default settings");
   __CPROVER_assert(st->variable_HP_smth2_Q15 >= 0 && st->variable_HP_smth2_Q15 < (1 << 24) && st->nb_no_activity_ms_Q1 == 0 && st->hybrid_stereo_width_Q14 == (1 << 14), "ranges the frame-coder groups assume hold initially");
}
void h_enc_create(void)
{
   opus_int32 Fs = nondet_int(); int ch = nondet_int(), app = nondet_int(), err = 12345; OpusEncoder *e;
   g_silk_fail = nondet_int() & 1; g_celt_fail = nondet_int() & 1; g_size_fail = 0;
   e = opus_encoder_create(Fs, ch, app, nondet_bool() ? &err : NULL);
   if (!LEGAL(Fs, ch, app)) __CPROVER_assert(e == NULL && (err == OPUS_BAD_ARG || err == 12345), "create rejects unsupported arguments with OPUS_BAD_ARG");
   else if (g_silk_fail || g_celt_fail) __CPROVER_assert(e == NULL && (err == OPUS_INTERNAL_ERROR || err == OPUS_ALLOC_FAIL || err == 12345), "create reports a failing sub-initialiser (or allocation failure) and returns NULL");
   else __CPROVER_assert((e != NULL && (err == OPUS_OK || err == 12345)) || (e == NULL && (err == OPUS_ALLOC_FAIL || err == 12345)), "create succeeds or reports allocation failure");
   if (e != NULL) { CANARY("created"); opus_encoder_destroy(e); }
   CANARY("after create");
}
