/* C01 / C10 (projection decoder and encoder): the six matrix multiply kernels of src/mapping_matrix.c (real bodies) write only
 * inside the caller's buffer of frame_size x rows samples and read only inside the input and the matrix, for every small
 * shape including NON-SQUARE matrices (more coded channels than output channels and vice versa).  Exact-size objects, so a
 * write or read outside is a bounds failure.  The 24-bit output kernel is also checked functionally (ghost element):
 * output += round(coefficient x sample / 2^15).  Bounded: one matrix shape per group (VERIF_R x VERIF_C, all rows / columns in use:
 * constant-size objects; symbolic-size ones exhaust the solver's memory), 2 samples per channel; kernel, selected channel,
 * coefficients and samples symbolic. */
#include "config.h"
#include "common.h"
#include <stdlib.h>
#include "opus.h"
#include "opus_private.h"
#include "/repo/src/mapping_matrix.c"
VERIF_DEFINE_CELT_FATAL
#define MAXD 3
#define MAXN 2
#ifndef VERIF_R
#define VERIF_R 2
#define VERIF_C 3
#endif
void h_proj_matrix(void)
{
   int rows = nondet_int(), cols = nondet_int(), n = nondet_int(), which = nondet_int(), in_rows = nondet_int(), out_rows = nondet_int(), sel = nondet_int(), i;
   char *blk; MappingMatrix *m; opus_int16 *md;
   rows = VERIF_R; cols = VERIF_C; n = MAXN; in_rows = VERIF_C; out_rows = VERIF_R;
#ifdef VERIF_WHICH
   which = VERIF_WHICH;       /* one kernel per group (the float kernels dominate the solver time) */
#else
   __CPROVER_assume(0 <= which && which <= 5);
#endif
   blk = malloc(align(sizeof(MappingMatrix)) + MAXD * MAXD * sizeof(opus_int16)); __CPROVER_assume(blk != NULL);
   m = (MappingMatrix *)blk; m->rows = rows; m->cols = cols; m->gain = 0; md = mapping_matrix_get_data(m);
   for (i = 0; i < MAXD * MAXD; i++) md[i] = nondet_short();
   if (which < 3) {
      /* decoder side: one coded channel (input_row of input_rows interleaved) is spread over output_rows output channels */
      opus_res *in; int gr = nondet_int(), gi = nondet_int();
      __CPROVER_assume(1 <= in_rows && in_rows <= cols && 1 <= out_rows && out_rows <= rows && 0 <= sel && sel < in_rows);
      in = malloc(sizeof(opus_res) * ((size_t)in_rows * (n - 1) + 1)); __CPROVER_assume(in != NULL);   /* the kernel is handed a pointer to its channel: samples at stride input_rows */
      for (i = 0; i < MAXD * MAXN; i++) if (i < in_rows * (n - 1) + 1) { in[i] = nondet_float(); __CPROVER_assume(in[i] >= -4.f && in[i] <= 4.f); }
      __CPROVER_assume(0 <= gr && gr < out_rows && 0 <= gi && gi < n);
      if (which == 0) { float *out = malloc(sizeof(float) * out_rows * n); __CPROVER_assume(out != NULL);
         for (i = 0; i < MAXD * MAXN; i++) if (i < out_rows * n) out[i] = 0;
         
#if !defined(VERIF_WHICH) || VERIF_WHICH == 0
         CANARY("float output kernel");
#endif

         mapping_matrix_multiply_channel_out_float(m, in, sel, in_rows, out, out_rows, n); }
      else if (which == 1) { opus_int16 *out = malloc(sizeof(opus_int16) * out_rows * n); __CPROVER_assume(out != NULL);
         for (i = 0; i < MAXD * MAXN; i++) if (i < out_rows * n) out[i] = 0;
         
#if !defined(VERIF_WHICH) || VERIF_WHICH == 1
         CANARY("16-bit output kernel");
#endif

         mapping_matrix_multiply_channel_out_short(m, in, sel, in_rows, out, out_rows, n); }
      else { opus_int32 *out = malloc(sizeof(opus_int32) * out_rows * n), old; __CPROVER_assume(out != NULL);
         for (i = 0; i < MAXD * MAXN; i++) if (i < out_rows * n) { out[i] = nondet_int(); __CPROVER_assume(out[i] > -(1 << 28) && out[i] < (1 << 28)); }
         old = out[out_rows * gi + gr];
         
#if !defined(VERIF_WHICH) || VERIF_WHICH == 2
         CANARY("24-bit output kernel");
#endif

         mapping_matrix_multiply_channel_out_int24(m, in, sel, in_rows, out, out_rows, n);
#ifdef VERIF_PM_FUNCTIONAL   /* thorough tier only: float -> int conversion times a 64-bit product did not finish within the quick budget */
         __CPROVER_assert(out[out_rows * gi + gr] == old + (opus_int32)((((opus_int64)md[rows * sel + gr] * RES2INT24(in[in_rows * gi])) + 16384) >> 15),
                          "24-bit projection output: every output channel of every sample accumulates round(coefficient x sample / 2^15)");
#endif
         (void)old; }
   } else {
      /* encoder side: in_rows interleaved input channels are mixed into one coded channel (output_row of output_rows) */
      opus_res *out;
      __CPROVER_assume(1 <= in_rows && in_rows <= cols && 1 <= out_rows && out_rows <= rows && 0 <= sel && sel < out_rows);
      out = malloc(sizeof(opus_res) * out_rows * n); __CPROVER_assume(out != NULL);
      if (which == 3) { float *in = malloc(sizeof(float) * in_rows * n); __CPROVER_assume(in != NULL);
         for (i = 0; i < MAXD * MAXN; i++) if (i < in_rows * n) { in[i] = nondet_float(); __CPROVER_assume(in[i] >= -4.f && in[i] <= 4.f); }
         
#if !defined(VERIF_WHICH) || VERIF_WHICH == 3
         CANARY("float input kernel");
#endif

         mapping_matrix_multiply_channel_in_float(m, in, in_rows, out, sel, out_rows, n); }
      else if (which == 4) { opus_int16 *in = malloc(sizeof(opus_int16) * in_rows * n); __CPROVER_assume(in != NULL);
         for (i = 0; i < MAXD * MAXN; i++) if (i < in_rows * n) in[i] = nondet_short();
         
#if !defined(VERIF_WHICH) || VERIF_WHICH == 4
         CANARY("16-bit input kernel");
#endif

         mapping_matrix_multiply_channel_in_short(m, in, in_rows, out, sel, out_rows, n); }
      else { opus_int32 *in = malloc(sizeof(opus_int32) * in_rows * n); __CPROVER_assume(in != NULL);
         for (i = 0; i < MAXD * MAXN; i++) if (i < in_rows * n) { in[i] = nondet_int(); __CPROVER_assume(in[i] >= -(1 << 23) && in[i] < (1 << 23)); }
         
#if !defined(VERIF_WHICH) || VERIF_WHICH == 5
         CANARY("24-bit input kernel");
#endif

         mapping_matrix_multiply_channel_in_int24(m, in, in_rows, out, sel, out_rows, n); }
   }
}
