GROUPS = [
 dict(name='icdf_tables', cls='F', tu='C17_icdf.c', entry='h_icdf_tables', dfcc=False, unwind=200, pregen=['tools/gen_icdf.py'],
      functions=[], timeout=300,
      what='every static *_iCDF / *_icdf table found in silk/tables_*.c, celt/celt.h, celt/quant_bands.c (list extracted from /repo each run): strictly decreasing per zero-terminated sub-table, last entry 0'),
]
META = {'cex': {'self': True, 'timeout': 900}}
GROUPS += [
 dict(name='pvq_layout', cls='F', tu='C17_pvq.c', entry='h_pvq_layout', dfcc=False, unwind=16, functions=[], timeout=120,
      what='CELT_PVQ_U_ROW pointers tile CELT_PVQ_U_DATA exactly; row extents monotone'),
 dict(name='pvq_recurrence', cls='F', tu='C17_pvq.c', entry='h_pvq_recurrence', dfcc=False, unwind=2, functions=[], timeout=300,
      what='U(0,K) base case and U(N,K)=U(N-1,K)+U(N,K-1)+U(N-1,K-1) in 64-bit arithmetic for every stored table entry (symbolic N,K)'),
]
GROUPS += [
]

for _lm in range(4):
    for _intra in range(2):
        GROUPS.append(dict(name='laplace_lm%d_i%d' % (_lm, _intra), cls='F', tu='C17_laplace.c', entry='h_laplace', dfcc=False, unwind=64,
            defines=['-DVERIF_LM=%d' % _lm, '-DVERIF_INTRA=%d' % _intra], functions=['ec_laplace_encode', 'ec_laplace_decode', 'ec_laplace_get_freq1'],
            trusted=['recording stubs for ec_decode_bin / ec_dec_update / ec_encode_bin (capture only; real contracts are enforced under C08)'],
            timeout=900, what='Laplace coder, the 21 (fs,decay) pairs of e_prob_model[%d][%d]: intervals tile [0,32768), decode inverts encode; code point and value fully symbolic' % (_lm, _intra)))

for (_n, _k, _tier) in ((3, 3, 'quick'), (4, 2, 'quick'), (3, 5, 'quick'), (4, 4, 'thorough'), (5, 3, 'thorough'), (6, 4, 'thorough'), (4, 8, 'thorough'), (8, 4, 'thorough')):
    GROUPS.append(dict(name='pvq_bijection_n%dk%d' % (_n, _k), cls='B', tier=_tier, tu='C17_pvq.c', entry='h_pvq_bijection', dfcc=False, unwind=_n + _k + 2,
        defines=['-DVERIF_PVQ_N=%d' % _n, '-DVERIF_PVQ_K=%d' % _k], functions=['cwrsi', 'icwrs'], timeout=3600, mem_gb=20,
        bounds='N=%d, K=%d, every index below V(N,K) symbolic' % (_n, _k), what='cwrsi then icwrs is the identity and the decoded vector has exactly K pulses'))
