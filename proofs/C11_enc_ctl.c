/* C11: opus_encoder_ctl (real variadic function from src/opus_encoder.c) on a fully symbolic OpusEncoder:
 *   legal value   => OPUS_OK, the matching getter reports it (bitrate after clamping), no other setting changes
 *                    except the documented coupled fields;
 *   illegal value => OPUS_BAD_ARG and every setting unchanged;  null out-pointer => OPUS_BAD_ARG;
 *   unknown request => OPUS_UNIMPLEMENTED and every setting unchanged.
 * legal(v) is written from include/opus_defines.h, not from the code.  Loop-free; arguments over all 2^32 values. */
#include "config.h"
#include "common.h"
#include <stdarg.h>
#include "/repo/src/opus_encoder.c"
#include "/repo/silk/lin2log.c"
VERIF_DEFINE_CELT_FATAL

/* trusted stub: the CELT-layer ctl (variadic, separate TU) accepts what it is forwarded and touches nothing of OpusEncoder */
static int verif_celt_calls, verif_celt_last_req;
/* sub-state resets (other TUs): touch nothing of OpusEncoder's own scalar fields */
void tonality_analysis_reset(TonalityAnalysisState *tonal) { (void)tonal; }
opus_int silk_InitEncoder(void *encState, int arch, silk_EncControlStruct *encStatus) { (void)encState; (void)arch; (void)encStatus; return 0; }
int celt_encoder_ctl(CELTEncoder *OPUS_RESTRICT st, int request, ...) { (void)st; verif_celt_calls++; verif_celt_last_req = request; return OPUS_OK; }

/* ---- the settings of an encoder (every scalar configuration field + the SILK control block) ---- */
#define F_APPLICATION  (1u<<0)
#define F_FORCE_CH     (1u<<1)
#define F_SIGNAL       (1u<<2)
#define F_USER_BW      (1u<<3)
#define F_MAX_BW       (1u<<4)
#define F_FORCED_MODE  (1u<<5)
#define F_VOICE_RATIO  (1u<<6)
#define F_VBR          (1u<<7)
#define F_VBR_CONSTR   (1u<<8)
#define F_VAR_DUR      (1u<<9)
#define F_USER_BITRATE (1u<<10)
#define F_LSB_DEPTH    (1u<<11)
#define F_LFE          (1u<<12)
#define F_DTX          (1u<<13)
#define F_FEC          (1u<<14)
#define F_S_MAXRATE    (1u<<15)
#define F_S_COMPLEXITY (1u<<16)
#define F_S_FEC        (1u<<17)
#define F_S_LOSS       (1u<<18)
#define F_S_CBR        (1u<<19)
#define F_S_REDDEP     (1u<<20)
#define F_ENERGY_MASK  (1u<<21)
#define F_ANALYSIS_APP (1u<<22)

#define EQF(m, bit, f) (((m) & (bit)) || a->f == b->f)
static int settings_eq_except(const OpusEncoder *a, const OpusEncoder *b, unsigned m)
{
   return a->celt_enc_offset == b->celt_enc_offset && a->silk_enc_offset == b->silk_enc_offset &&
      EQF(m, F_APPLICATION, application) && a->channels == b->channels && a->delay_compensation == b->delay_compensation &&
      EQF(m, F_FORCE_CH, force_channels) && EQF(m, F_SIGNAL, signal_type) && EQF(m, F_USER_BW, user_bandwidth) &&
      EQF(m, F_MAX_BW, max_bandwidth) && EQF(m, F_FORCED_MODE, user_forced_mode) && EQF(m, F_VOICE_RATIO, voice_ratio) &&
      a->Fs == b->Fs && EQF(m, F_VBR, use_vbr) && EQF(m, F_VBR_CONSTR, vbr_constraint) && EQF(m, F_VAR_DUR, variable_duration) &&
      a->bitrate_bps == b->bitrate_bps && EQF(m, F_USER_BITRATE, user_bitrate_bps) && EQF(m, F_LSB_DEPTH, lsb_depth) &&
      a->encoder_buffer == b->encoder_buffer && EQF(m, F_LFE, lfe) && a->arch == b->arch && EQF(m, F_DTX, use_dtx) &&
      EQF(m, F_FEC, fec_config) && EQF(m, F_ENERGY_MASK, energy_masking) && EQF(m, F_ANALYSIS_APP, analysis.application) &&
      a->silk_mode.nChannelsAPI == b->silk_mode.nChannelsAPI && a->silk_mode.nChannelsInternal == b->silk_mode.nChannelsInternal &&
      a->silk_mode.API_sampleRate == b->silk_mode.API_sampleRate && EQF(m, F_S_MAXRATE, silk_mode.maxInternalSampleRate) &&
      a->silk_mode.minInternalSampleRate == b->silk_mode.minInternalSampleRate &&
      a->silk_mode.desiredInternalSampleRate == b->silk_mode.desiredInternalSampleRate &&
      a->silk_mode.payloadSize_ms == b->silk_mode.payloadSize_ms && a->silk_mode.bitRate == b->silk_mode.bitRate &&
      EQF(m, F_S_LOSS, silk_mode.packetLossPercentage) && EQF(m, F_S_COMPLEXITY, silk_mode.complexity) &&
      EQF(m, F_S_FEC, silk_mode.useInBandFEC) && a->silk_mode.useDRED == b->silk_mode.useDRED &&
      a->silk_mode.LBRR_coded == b->silk_mode.LBRR_coded && a->silk_mode.useDTX == b->silk_mode.useDTX &&
      EQF(m, F_S_CBR, silk_mode.useCBR) && a->silk_mode.maxBits == b->silk_mode.maxBits && a->silk_mode.toMono == b->silk_mode.toMono &&
      a->silk_mode.opusCanSwitch == b->silk_mode.opusCanSwitch && EQF(m, F_S_REDDEP, silk_mode.reducedDependency) &&
      /* stream state that a ctl other than RESET must not touch */
      a->stream_channels == b->stream_channels && a->mode == b->mode && a->prev_mode == b->prev_mode && a->bandwidth == b->bandwidth &&
      a->first == b->first && a->prev_framesize == b->prev_framesize && a->nb_no_activity_ms_Q1 == b->nb_no_activity_ms_Q1 &&
      a->rangeFinal == b->rangeFinal && a->nonfinal_frame == b->nonfinal_frame;
}

/* the encoder lives in one block of opus_encoder_get_size() bytes: OpusEncoder, then the SILK and CELT states.
   Uninitialised locals are nondeterministic in CBMC: a fully symbolic state without any havoc or copy. */
#define VERIF_EXTRA 64
typedef struct { OpusEncoder e; char sub_states[VERIF_EXTRA]; } enc_block;
#define st (blk.e)
#define SYMBOLIC_ENCODER \
   enc_block blk; OpusEncoder old; \
   __CPROVER_assume(st.channels == 1 || st.channels == 2); \
   __CPROVER_assume(st.Fs == 8000 || st.Fs == 12000 || st.Fs == 16000 || st.Fs == 24000 || st.Fs == 48000); \
   __CPROVER_assume(st.celt_enc_offset >= (int)sizeof(OpusEncoder) && st.celt_enc_offset < (int)sizeof(OpusEncoder) + VERIF_EXTRA); \
   __CPROVER_assume(st.first == 0 || st.first == 1); \
   __CPROVER_assume(0 <= st.delay_compensation && st.delay_compensation <= 48000 / 250);   /* opus_encoder_init: Fs/250 */ \
   /* old: an arbitrary second state that agrees with st on every setting (no 40 kB copy needed) */ \
   __CPROVER_assume(settings_eq_except(&st, &old, 0));

/* one harness per SET request: SETTER_HARNESS(name, set request, get request, legal(v), expected read-back, fields allowed to change) */
#define SETTER_HARNESS(NAME, SETREQ, GETREQ, LEGAL, READBACK, MASK) \
void h_set_##NAME(void) { \
   opus_int32 v = nondet_int(), got = nondet_int(); int ret, r2; \
   SYMBOLIC_ENCODER \
   ret = opus_encoder_ctl(&st, SETREQ, v); \
   if (LEGAL) { \
      CANARY("legal " #NAME); \
      __CPROVER_assert(ret == OPUS_OK, #NAME ": legal value accepted"); \
      __CPROVER_assert(settings_eq_except(&st, &old, (MASK)), #NAME ": no other setting changes"); \
      r2 = opus_encoder_ctl(&st, GETREQ, &got); \
      __CPROVER_assert(r2 == OPUS_OK && got == (READBACK), #NAME ": getter reports the value that was set"); \
   } else { \
      CANARY("illegal " #NAME); \
      __CPROVER_assert(ret == OPUS_BAD_ARG, #NAME ": illegal value rejected with OPUS_BAD_ARG"); \
      __CPROVER_assert(settings_eq_except(&st, &old, 0), #NAME ": rejected request leaves every setting unchanged"); \
   } \
   r2 = opus_encoder_ctl(&st, GETREQ, (opus_int32 *)NULL); \
   __CPROVER_assert(r2 == OPUS_BAD_ARG, #NAME ": getter with a null pointer is rejected"); \
}

#define BW_OK(v) ((v) >= OPUS_BANDWIDTH_NARROWBAND && (v) <= OPUS_BANDWIDTH_FULLBAND)
#define CLAMP_BITRATE(v) ((v) == OPUS_AUTO || (v) == OPUS_BITRATE_MAX ? (v) : (v) <= 500 ? 500 : (v) > 300000 * old.channels ? 300000 * old.channels : (v))
/* bitrate getter resolves AUTO / MAX (documented): computed by the real user_bitrate_to_bitrate on the new state */
SETTER_HARNESS(application, OPUS_SET_APPLICATION_REQUEST, OPUS_GET_APPLICATION_REQUEST,
   ((v == OPUS_APPLICATION_VOIP || v == OPUS_APPLICATION_AUDIO || v == OPUS_APPLICATION_RESTRICTED_LOWDELAY) && (old.first || old.application == v)),
   v, F_APPLICATION | F_ANALYSIS_APP)
SETTER_HARNESS(force_channels, OPUS_SET_FORCE_CHANNELS_REQUEST, OPUS_GET_FORCE_CHANNELS_REQUEST,
   (v == OPUS_AUTO || (v >= 1 && v <= old.channels)), v, F_FORCE_CH)
SETTER_HARNESS(max_bandwidth, OPUS_SET_MAX_BANDWIDTH_REQUEST, OPUS_GET_MAX_BANDWIDTH_REQUEST, BW_OK(v), v, F_MAX_BW | F_S_MAXRATE)
SETTER_HARNESS(dtx, OPUS_SET_DTX_REQUEST, OPUS_GET_DTX_REQUEST, (v == 0 || v == 1), v, F_DTX)
SETTER_HARNESS(complexity, OPUS_SET_COMPLEXITY_REQUEST, OPUS_GET_COMPLEXITY_REQUEST, (v >= 0 && v <= 10), v, F_S_COMPLEXITY)
SETTER_HARNESS(inband_fec, OPUS_SET_INBAND_FEC_REQUEST, OPUS_GET_INBAND_FEC_REQUEST, (v >= 0 && v <= 2), v, F_FEC | F_S_FEC)
SETTER_HARNESS(packet_loss_perc, OPUS_SET_PACKET_LOSS_PERC_REQUEST, OPUS_GET_PACKET_LOSS_PERC_REQUEST, (v >= 0 && v <= 100), v, F_S_LOSS)
SETTER_HARNESS(vbr, OPUS_SET_VBR_REQUEST, OPUS_GET_VBR_REQUEST, (v == 0 || v == 1), v, F_VBR | F_S_CBR)
SETTER_HARNESS(voice_ratio, OPUS_SET_VOICE_RATIO_REQUEST, OPUS_GET_VOICE_RATIO_REQUEST, (v >= -1 && v <= 100), v, F_VOICE_RATIO)
SETTER_HARNESS(vbr_constraint, OPUS_SET_VBR_CONSTRAINT_REQUEST, OPUS_GET_VBR_CONSTRAINT_REQUEST, (v == 0 || v == 1), v, F_VBR_CONSTR)
SETTER_HARNESS(signal, OPUS_SET_SIGNAL_REQUEST, OPUS_GET_SIGNAL_REQUEST, (v == OPUS_AUTO || v == OPUS_SIGNAL_VOICE || v == OPUS_SIGNAL_MUSIC), v, F_SIGNAL)
SETTER_HARNESS(lsb_depth, OPUS_SET_LSB_DEPTH_REQUEST, OPUS_GET_LSB_DEPTH_REQUEST, (v >= 8 && v <= 24), v, F_LSB_DEPTH)
SETTER_HARNESS(expert_frame_duration, OPUS_SET_EXPERT_FRAME_DURATION_REQUEST, OPUS_GET_EXPERT_FRAME_DURATION_REQUEST,
   (v == OPUS_FRAMESIZE_ARG || v == OPUS_FRAMESIZE_2_5_MS || v == OPUS_FRAMESIZE_5_MS || v == OPUS_FRAMESIZE_10_MS || v == OPUS_FRAMESIZE_20_MS ||
    v == OPUS_FRAMESIZE_40_MS || v == OPUS_FRAMESIZE_60_MS || v == OPUS_FRAMESIZE_80_MS || v == OPUS_FRAMESIZE_100_MS || v == OPUS_FRAMESIZE_120_MS),
   v, F_VAR_DUR)
SETTER_HARNESS(prediction_disabled, OPUS_SET_PREDICTION_DISABLED_REQUEST, OPUS_GET_PREDICTION_DISABLED_REQUEST, (v == 0 || v == 1), v, F_S_REDDEP)

/* bandwidth: the getter reports the bandwidth in use (stream state), the setter stores the user's choice */
void h_set_bandwidth(void)
{
   opus_int32 v = nondet_int(); int ret;
   SYMBOLIC_ENCODER
   ret = opus_encoder_ctl(&st, OPUS_SET_BANDWIDTH_REQUEST, v);
   if (v == OPUS_AUTO || BW_OK(v)) {
      CANARY("legal bandwidth");
      __CPROVER_assert(ret == OPUS_OK && st.user_bandwidth == v, "bandwidth: legal value accepted and stored");
      __CPROVER_assert(settings_eq_except(&st, &old, F_USER_BW | F_S_MAXRATE), "bandwidth: no other setting changes");
      __CPROVER_assert(st.silk_mode.maxInternalSampleRate == (v == OPUS_BANDWIDTH_NARROWBAND ? 8000 : v == OPUS_BANDWIDTH_MEDIUMBAND ? 12000 : 16000), "bandwidth: SILK rate cap follows");
   } else {
      CANARY("illegal bandwidth");
      __CPROVER_assert(ret == OPUS_BAD_ARG && settings_eq_except(&st, &old, 0), "bandwidth: illegal value rejected, nothing changes");
   }
}

/* bitrate: documented clamping to [500, 300000*channels], AUTO / MAX resolved by the getter */
void h_set_bitrate(void)
{
   opus_int32 v = nondet_int(), got = nondet_int(); int ret, r2;
   SYMBOLIC_ENCODER
   __CPROVER_assume(old.prev_framesize == 0 || (old.prev_framesize >= old.Fs / 400 && old.prev_framesize <= old.Fs * 3 / 25));
   ret = opus_encoder_ctl(&st, OPUS_SET_BITRATE_REQUEST, v);
   if (v == OPUS_AUTO || v == OPUS_BITRATE_MAX || v > 0) {
      int fs = old.prev_framesize ? old.prev_framesize : old.Fs / 400;
      CANARY("legal bitrate");
      __CPROVER_assert(ret == OPUS_OK && st.user_bitrate_bps == CLAMP_BITRATE(v), "bitrate: accepted and stored after the documented clamping");
      __CPROVER_assert(settings_eq_except(&st, &old, F_USER_BITRATE), "bitrate: no other setting changes");
      r2 = opus_encoder_ctl(&st, OPUS_GET_BITRATE_REQUEST, &got);
      __CPROVER_assert(r2 == OPUS_OK, "bitrate getter succeeds");
      __CPROVER_assert(got == (v == OPUS_AUTO ? 60 * old.Fs / fs + old.Fs * old.channels : v == OPUS_BITRATE_MAX ? 1276 * 8 * old.Fs / fs : CLAMP_BITRATE(v)),
                       "bitrate getter reports the clamped value, or the AUTO / MAX resolution");
   } else {
      CANARY("illegal bitrate");
      __CPROVER_assert(ret == OPUS_BAD_ARG && settings_eq_except(&st, &old, 0), "bitrate: non-positive value rejected, nothing changes");
   }
}

/* read-only getters + unknown requests */
void h_getters_unknown(void)
{
   opus_int32 got = nondet_int(); opus_uint32 ugot; int req = nondet_int(), ret;
   SYMBOLIC_ENCODER
   ret = opus_encoder_ctl(&st, OPUS_GET_SAMPLE_RATE_REQUEST, &got);
   __CPROVER_assert(ret == OPUS_OK && got == old.Fs && settings_eq_except(&st, &old, 0), "GET_SAMPLE_RATE reports Fs");
   ret = opus_encoder_ctl(&st, OPUS_GET_LOOKAHEAD_REQUEST, &got);
   __CPROVER_assert(ret == OPUS_OK && got == (opus_int32)((long long)old.Fs / 400 + (old.application != OPUS_APPLICATION_RESTRICTED_LOWDELAY ? old.delay_compensation : 0)), "GET_LOOKAHEAD formula");
   ret = opus_encoder_ctl(&st, OPUS_GET_FINAL_RANGE_REQUEST, &ugot);
   __CPROVER_assert(ret == OPUS_OK && ugot == old.rangeFinal, "GET_FINAL_RANGE reports rangeFinal");
   ret = opus_encoder_ctl(&st, OPUS_GET_BANDWIDTH_REQUEST, &got);
   __CPROVER_assert(ret == OPUS_OK && got == old.bandwidth && settings_eq_except(&st, &old, 0), "GET_BANDWIDTH reports the bandwidth in use");
   ret = opus_encoder_ctl(&st, OPUS_GET_SAMPLE_RATE_REQUEST, (opus_int32 *)NULL);
   __CPROVER_assert(ret == OPUS_BAD_ARG, "null pointer rejected");
   ret = opus_encoder_ctl(&st, OPUS_GET_FINAL_RANGE_REQUEST, (opus_uint32 *)NULL);
   __CPROVER_assert(ret == OPUS_BAD_ARG, "null pointer rejected (final range)");
   /* a request number nobody defines */
   __CPROVER_assume(req < 4000 || req > 12000);
   __CPROVER_assume(req != OPUS_RESET_STATE);
   ret = opus_encoder_ctl(&st, req, &got);
   __CPROVER_assert(ret == OPUS_UNIMPLEMENTED, "unknown request => OPUS_UNIMPLEMENTED");
   __CPROVER_assert(settings_eq_except(&st, &old, 0), "unknown request leaves every setting unchanged");
   CANARY("after getters");
}

/* C12: OPUS_RESET_STATE on an arbitrary encoder: every setting is kept and the stream state is what opus_encoder_init
   gives (zero, except the documented non-zero defaults).  Sub-encoder resets are stubs (celt_encoder_ctl) or bodiless
   (silk_InitEncoder, tonality_analysis_reset: no effect on OpusEncoder's own fields). */
void h_enc_reset(void)
{
   int ret, i;
   SYMBOLIC_ENCODER
   __CPROVER_assume(st.silk_enc_offset >= (int)sizeof(OpusEncoder) && st.silk_enc_offset < (int)sizeof(OpusEncoder) + VERIF_EXTRA);
   ret = opus_encoder_ctl(&st, OPUS_RESET_STATE);
   __CPROVER_assert(ret == OPUS_OK, "RESET_STATE succeeds");
   __CPROVER_assert(st.application == old.application && st.channels == old.channels && st.Fs == old.Fs && st.force_channels == old.force_channels &&
      st.signal_type == old.signal_type && st.user_bandwidth == old.user_bandwidth && st.max_bandwidth == old.max_bandwidth && st.user_forced_mode == old.user_forced_mode &&
      st.voice_ratio == old.voice_ratio && st.use_vbr == old.use_vbr && st.vbr_constraint == old.vbr_constraint && st.variable_duration == old.variable_duration &&
      st.user_bitrate_bps == old.user_bitrate_bps && st.lsb_depth == old.lsb_depth && st.lfe == old.lfe && st.use_dtx == old.use_dtx && st.fec_config == old.fec_config &&
      st.delay_compensation == old.delay_compensation && st.encoder_buffer == old.encoder_buffer && st.celt_enc_offset == old.celt_enc_offset && st.silk_enc_offset == old.silk_enc_offset &&
      st.silk_mode.complexity == old.silk_mode.complexity && st.silk_mode.useInBandFEC == old.silk_mode.useInBandFEC && st.silk_mode.packetLossPercentage == old.silk_mode.packetLossPercentage &&
      st.silk_mode.useCBR == old.silk_mode.useCBR && st.silk_mode.reducedDependency == old.silk_mode.reducedDependency && st.silk_mode.maxInternalSampleRate == old.silk_mode.maxInternalSampleRate,
      "RESET_STATE keeps every setting");
   __CPROVER_assert(st.stream_channels == old.channels && st.hybrid_stereo_width_Q14 == (1 << 14) && st.prev_HB_gain == Q15ONE && st.first == 1 &&
      st.mode == MODE_HYBRID && st.bandwidth == OPUS_BANDWIDTH_FULLBAND && st.variable_HP_smth2_Q15 == silk_LSHIFT(silk_lin2log(VARIABLE_HP_MIN_CUTOFF_HZ), 8),
      "RESET_STATE restores the non-zero defaults of opus_encoder_init");
   __CPROVER_assert(st.prev_mode == 0 && st.prev_channels == 0 && st.prev_framesize == 0 && st.auto_bandwidth == 0 && st.silk_bw_switch == 0 && st.energy_masking == NULL &&
      st.detected_bandwidth == 0 && st.nb_no_activity_ms_Q1 == 0 && st.peak_signal_energy == 0 && st.nonfinal_frame == 0 && st.rangeFinal == 0 &&
      st.hp_mem[0] == 0 && st.hp_mem[1] == 0 && st.hp_mem[2] == 0 && st.hp_mem[3] == 0 && st.width_mem.XX == 0 && st.width_mem.max_follower == 0,
      "RESET_STATE clears the rest of the stream state (as a newly initialised encoder), including the DTX inactivity counter");
   i = nondet_int(); __CPROVER_assume(0 <= i && i < MAX_ENCODER_BUFFER * 2);
   __CPROVER_assert(st.delay_buffer[i] == 0, "RESET_STATE clears the delay buffer");
   CANARY("after encoder reset");
}
