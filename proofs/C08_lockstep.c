/* C08: encoder/decoder lock-step — after every operation pair both report the same range and the same
 * whole and fractional bit counts.  Two-state lemma harnesses on the REAL function pairs: from equal
 * (rng, nbits_total) and the symbol the decoder actually decodes, encoding that same symbol leaves both
 * coders with equal (rng, nbits_total), hence equal ec_tell() and ec_tell_frac().  States fully symbolic
 * under RI_ENC / RI_DEC; byte output of the encoder abstracted by the (separately enforced) contract of
 * ec_enc_carry_out, byte input of the decoder by that of ec_read_byte(_from_end). */
#include "config.h"
#include "entcode_contracts.h"
#include "libc_frame.h"
#include "/repo/celt/entcode.c"
#include "/repo/celt/entenc.c"
#include "/repo/celt/entdec.c"
#include <stdlib.h>
VERIF_DEFINE_CELT_FATAL

static ec_enc E; static ec_dec D;
static unsigned char *ebuf, *dbuf;
#define SETUP_PAIR \
   __CPROVER_havoc_object(&E); __CPROVER_havoc_object(&D); \
   __CPROVER_assume(1 <= E.storage && E.storage <= (1U<<30) && 1 <= D.storage && D.storage <= (1U<<30)); \
   ebuf = malloc(E.storage); dbuf = malloc(D.storage); __CPROVER_assume(ebuf && dbuf); E.buf = ebuf; D.buf = dbuf; \
   __CPROVER_assume(RI_ENC(&E) && ENC_SLACK(&E, 2) && RI_DEC(&D) && D.nbits_total < (1<<28) - 64); \
   __CPROVER_assume(E.rng == D.rng && E.nbits_total == D.nbits_total);
#define LOCKSTEP(name) \
   __CPROVER_assert(E.rng == D.rng, name ": encoder and decoder ranges stay equal"); \
   __CPROVER_assert(E.nbits_total == D.nbits_total, name ": encoder and decoder bit counts stay equal"); \
   __CPROVER_assert(ec_tell(&E) == ec_tell(&D) && ec_tell_frac(&E) == ec_tell_frac(&D), name ": same whole and fractional bit usage");

void h_ls_bit_logp(void)
{
   unsigned logp = nondet_uint(); int s;
   SETUP_PAIR
   __CPROVER_assume(1 <= logp && logp <= 16);
   s = ec_dec_bit_logp(&D, logp);
   ec_enc_bit_logp(&E, s, logp);
   LOCKSTEP("bit_logp")
   CANARY("after bit_logp pair");
}

void h_ls_bin(void)
{
   unsigned bits = nondet_uint(), fl = nondet_uint(), fh = nondet_uint(), fs;
   SETUP_PAIR
#ifdef VERIF_BITS
   __CPROVER_assume(bits == VERIF_BITS);
#endif
   __CPROVER_assume(1 <= bits && bits <= 16);
   fs = ec_decode_bin(&D, bits);
   __CPROVER_assert(fs < (1U << bits), "ec_decode_bin returns a value below 2^bits");
   __CPROVER_assume(fl <= fs && fs < fh && fh <= (1U << bits));      /* the caller's symbol interval contains the decoded value */
   ec_dec_update(&D, fl, fh, 1U << bits);
   ec_encode_bin(&E, fl, fh, bits);
   LOCKSTEP("encode_bin/decode_bin")
   CANARY("after bin pair");
}

void h_ls_freq(void)
{
   unsigned ft = nondet_uint(), fl = nondet_uint(), fh = nondet_uint(), fs;
   SETUP_PAIR
   __CPROVER_assume(1 <= ft && ft <= (1U << 16));
   fs = ec_decode(&D, ft);
   __CPROVER_assume(fl <= fs && fs < fh && fh <= ft);
   ec_dec_update(&D, fl, fh, ft);
   ec_encode(&E, fl, fh, ft);
   LOCKSTEP("encode/decode")
   CANARY("after freq pair");
}

void h_ls_bits(void)
{
   unsigned bits = nondet_uint(); opus_uint32 v;
   SETUP_PAIR
   __CPROVER_assume(1 <= bits && bits <= 25);
   v = ec_dec_bits(&D, bits);
   __CPROVER_assert(v < (1U << bits), "ec_dec_bits returns a value below 2^bits");
   ec_enc_bits(&E, v, bits);
   LOCKSTEP("bits")
   CANARY("after bits pair");
}

/* ec_tell_frac: the shipped table version equals the reference squaring recurrence (the #else branch of
   celt/entcode.c, transcribed) and brackets the whole-bit count, for every normalised range */
static opus_uint32 tell_frac_reference(opus_uint32 rng, int nbits_total)
{
   opus_uint32 nbits, r; int l, i;
   nbits = nbits_total << BITRES;
   l = EC_ILOG(rng);
   r = rng >> (l - 16);
   for (i = BITRES; i-- > 0;) { int b; r = r * r >> 15; b = (int)(r >> 16); l = l << 1 | b; r >>= b; }
   return nbits - l;
}
void h_tell_frac(void)
{
   ec_ctx c; opus_uint32 f; int t;
   __CPROVER_assume(c.rng > TWO23 && c.rng <= TWO31 && 0 <= c.nbits_total && c.nbits_total < (1 << 28));
   f = ec_tell_frac(&c); t = ec_tell(&c);
   __CPROVER_assert(f == tell_frac_reference(c.rng, c.nbits_total), "ec_tell_frac (table version) == reference squaring recurrence");
   __CPROVER_assert((opus_int32)f <= 8 * t && (opus_int32)f >= 8 * t - 7, "8*ec_tell - 7 <= ec_tell_frac <= 8*ec_tell: fractional count is consistent with the whole count");
   CANARY("after tell_frac");
}
