GROUPS = []
for _fs in (48000, 24000, 16000, 12000, 8000):
    GROUPS.append(dict(name='decode_native_fs%d' % _fs, cls='P', tu='C01_decode_native.c', entry='h_decode_native', canary='real',
        tier='quick' if _fs in (48000, 16000, 8000) else 'thorough',     # each quick command has to stay well under 15 min on a loaded machine
        replace=['opus_decode_frame'], defines=['-DVERIF_FS=%d' % _fs], unwind=2, unwind_fn={'opus_packet_parse_impl': 49}, timeout=1800, expect_canaries=2,
        functions=['opus_decode_native', 'opus_packet_get_samples_per_frame', 'opus_packet_get_mode', 'opus_packet_get_bandwidth', 'opus_packet_get_nb_channels'],
        trusted=['ASSUMED contract of opus_decode_frame (result range, exact duration of a real frame, PLC multiple of 2.5 ms, writes only st fields and pcm[0..frame_size*channels))',
                 'stub of opus_packet_parse_impl carrying exactly the clauses E2-E9 enforced on the real parser under C06',
                 'frame-only stub of opus_pcm_soft_clip (its contract is enforced under C19)'],
        what='opus_decode_native at Fs=%d: result range, argument rules, PLC/FEC exact duration, last_packet_duration, invariant; recursion unwound, PLC and frame loops by contract' % _fs))
_DW = dict(cls='P', tu='C01_dec_wrappers.c', replace=['opus_decode_native'], defines=['-U__SSE__'], canary='real', unwind=2, timeout=1200,
           trusted=['opus_decode_native replaced by its contract (result range and exact PLC/FEC duration are what the decode_native_fs* groups establish H-style; here assumed)',
                    'stub of celt_float2int16_c (other TU): writes exactly cnt samples, sample K by FLOAT2INT16'])
GROUPS += [
 dict(_DW, name='wrap_opus_decode24', entry='h_opus_decode24', expect_canaries=2, functions=['opus_decode24', 'opus_decoder_get_nb_samples'], what='opus_decode24: argument rules, PLC/FEC forwarded with the full duration, packet decoded into min(frame_size, duration), sample K = round(2^23 x) (loop contract), no soft clip'),
 dict(_DW, name='wrap_opus_decode', entry='h_opus_decode', expect_canaries=2, functions=['opus_decode', 'opus_decoder_get_nb_samples'], what='opus_decode: same rules, soft clip requested, conversion through celt_float2int16'),
 dict(_DW, name='wrap_opus_decode_float', entry='h_opus_decode_float', functions=['opus_decode_float'], what='opus_decode_float: passes straight through'),
]
META = {}
GROUPS.append(dict(name='decode_frame_fs8000', tier='off', cls='F', tu='C01_decode_frame.c', entry='h_decode_frame', dfcc=False, canary='real', expect_canaries=3,
    defines=['-DVERIF_FS=8000', '-U__SSE__'], unwind=14, unwind_src=[(r'i<audiosize\*st->channels', 1924), (r'i<(st->)?frame_size\*st->(stream_)?channels', 964), (r'i<st->channels\*F2_5', 42), (r'i<F2_5|i<overlap', 22)], timeout=7200, mem_gb=24,
    cbmc_flags=['--object-bits', '10', '--slice-formula'],
    functions=['opus_decode_frame', 'smooth_fade', 'ec_dec_init', 'ec_dec_bit_logp', 'ec_dec_uint', 'ec_tell'],
    trusted=['ASSUMED frame contracts (stubs) of silk_Decode, celt_decode_with_ec(_dred), opus_custom_decoder_ctl, silk_ResetDecoder: result ranges and write extents only; each asserts the validity of the buffers it receives'],
    bounds='Fs = 8000 (all frame durations 2.5-120 ms), payload of <= 6 symbolic bytes, decoder gain 0; recursion depth <= 8',
    what='opus_decode_frame glue: result range, exact duration of a real frame, concealment succeeds with a multiple of 2.5 ms, buffers handed to SILK/CELT are large enough, redundancy offsets inside the packet, no internal abort'))

# concrete shapes (channels, TOC duration in 2.5 ms units, output buffer in samples at 8 kHz): exact-size output object
_SHAPES = [  # (channels, tocf, buf, tier)
   (2, 1, 20, 'thorough'), (1, 2, 40, 'thorough'), (2, 4, 80, 'thorough'), (1, 8, 160, 'thorough'),    # buffer == TOC duration
   (1, 4, 79, 'thorough'), (2, 8, 100, 'thorough'),                                                   # buffer smaller than the TOC duration
   (1, 1, 60, 'thorough'), (2, 2, 60, 'thorough'), (1, 8, 220, 'thorough'),                           # PLC / FEC requests longer than the frame (7.5 ms remainders: 60 = 3 x 2.5 ms, 220 = 20 + 7.5 ms)
   (1, 16, 320, 'thorough'), (2, 24, 480, 'thorough'), (1, 8, 960, 'thorough'), (2, 8, 330, 'thorough'),
]
for (_ch, _tf, _buf, _tier) in _SHAPES:
  for (_cn, _ca, _nc, _sp) in (('plc', 'null_data', 1 + (_buf % 20 == 0), 1), ('dtx', '!null_data&&len<=1', 1 + (_buf % 20 == 0), 2), ('real', '!null_data&&len>=2', 1 + (_buf >= _tf * 20), 3)):
    GROUPS.append(dict(name='decode_frame_c%dt%db%d_%s' % (_ch, _tf, _buf, _cn), tier=_tier, cls='B', tu='C01_decode_frame.c', entry='h_decode_frame', dfcc=False, canary='real', expect_canaries=_nc,
        defines=['-DVERIF_FS=8000', '-U__SSE__', '-DVERIF_CH=%d' % _ch, '-DVERIF_TOCF=%d' % _tf, '-DVERIF_BUF=%d' % _buf, '-DVERIF_EXTRA_ASSUME=' + _ca, '-DVERIF_SPLIT=%d' % _sp], unwind=14,
        unwind_src=[(r'i<audiosize\*st->channels', _buf * _ch + 2), (r'i<(st->)?frame_size\*st->(stream_)?channels', _buf * _ch + 2), (r'i<st->channels\*F2_5', 42), (r'i<F2_5|i<overlap', 22)], timeout=3600, mem_gb=20,
        cbmc_flags=['--object-bits', '10', '--slice-formula'],
        ignore=[(r'(same object violation|arithmetic overflow on signed -) in pcm - pcm_silk', 'OPUS_COPY type-check term 0*((dst)-(src)) on distinct buffers (CBMC: pointer difference across objects)')],
        functions=['opus_decode_frame', 'smooth_fade', 'ec_dec_init', 'ec_dec_bit_logp', 'ec_dec_uint', 'ec_tell'],
        trusted=['ASSUMED frame contracts (stubs) of silk_Decode, celt_decode_with_ec(_dred), opus_custom_decoder_ctl, silk_ResetDecoder: result ranges and write extents only; each asserts the validity of the buffers it receives',
                 'the four scratch arrays of opus_decode_frame get a fixed capacity; requested sizes are tracked in ghost state and checked at the callee boundaries'],
        bounds='Fs = 8000, %d channel(s), TOC duration %g ms, output buffer of exactly %d samples per channel, %s, any modes/previous modes, decoder gain 0' % (_ch, _tf * 2.5, _buf, {'plc': 'lost frame (null data)', 'dtx': 'payload of 0-1 bytes', 'real': 'payload of 2-6 symbolic bytes'}[_cn]),
        what='opus_decode_frame glue: result range, exact duration of a real frame, concealment succeeds with a multiple of 2.5 ms, every write inside the exact-size buffer, buffers handed to SILK/CELT large enough, redundancy offsets inside the packet, no internal abort'))

for (_mf, _tier) in ((2, 'off'), (4, 'off')):
    GROUPS.append(dict(name='decode_frame_fs8000_le%dms' % (_mf * 5 // 2), tier=_tier, cls='B', tu='C01_decode_frame.c', entry='h_decode_frame', dfcc=False, canary='real', expect_canaries=3,
        defines=['-DVERIF_FS=8000', '-U__SSE__', '-DVERIF_MAXF=%d' % _mf], unwind=14,
        unwind_src=[(r'i<audiosize\*st->channels', 40 * _mf + 4), (r'i<(st->)?frame_size\*st->(stream_)?channels', 40 * _mf + 4), (r'i<st->channels\*F2_5', 42), (r'i<F2_5|i<overlap', 22)], timeout=3600, mem_gb=20,
        cbmc_flags=['--object-bits', '10', '--slice-formula'],
        functions=['opus_decode_frame', 'smooth_fade', 'ec_dec_init', 'ec_dec_bit_logp', 'ec_dec_uint', 'ec_tell'],
        trusted=['ASSUMED frame contracts (stubs) of silk_Decode, celt_decode_with_ec(_dred), opus_custom_decoder_ctl, silk_ResetDecoder: result ranges and write extents only; each asserts the validity of the buffers it receives'],
        bounds='Fs = 8000, TOC duration and output buffer <= %d x 2.5 ms, payload of <= 6 symbolic bytes, decoder gain 0; recursion depth <= 8' % _mf,
        what='opus_decode_frame glue (frames up to %g ms): result range, exact duration of a real frame, concealment succeeds with a multiple of 2.5 ms, buffers handed to SILK/CELT are large enough, redundancy offsets inside the packet, no internal abort' % (_mf * 2.5)))

# the C01 clause on the packet-inspection functions ("reads only the packet"): shared with C06
import copy as _copy
from proofs import reg_C06 as _r6
for _g in _r6.GROUPS:
    if _g['name'] in ('has_lbrr_safe', 'has_lbrr_safe_all'):
        _h = _copy.deepcopy(_g); _h.pop('prop', None); GROUPS.append(_h)

for _r, _c, _k, _tier in [(2, 3, 2, 'quick'), (3, 2, 5, 'quick'), (2, 3, 1, 'quick')] + [(r, c, k, 'thorough') for (r, c) in ((2, 3), (3, 2)) for k in range(6) if (r, c, k) not in ((2, 3, 2), (3, 2, 5), (2, 3, 1))]:
  GROUPS.append(dict(name='proj_matrix_kernels_%dx%d_k%d' % (_r, _c, _k), tier=_tier, defines=['-U__SSE__', '-DVERIF_R=%d' % _r, '-DVERIF_C=%d' % _c, '-DVERIF_WHICH=%d' % _k], cls='B', tu='C01_proj_matrix.c', entry='h_proj_matrix', dfcc=False, canary='real', expect_canaries=1, unwind=10, timeout=1500, mem_gb=12,
      functions=['mapping_matrix_multiply_channel_out_float', 'mapping_matrix_multiply_channel_out_short', 'mapping_matrix_multiply_channel_out_int24',
                 'mapping_matrix_multiply_channel_in_float', 'mapping_matrix_multiply_channel_in_short', 'mapping_matrix_multiply_channel_in_int24', 'mapping_matrix_get_data'],
      bounds='%d x %d matrix (rows x columns, all in use), kernel %d of 6 (0-2 output float/16/24 bit, 3-5 input), 2 samples per channel, exact-size buffers, samples within +-4.0 / 24 bits' % (_r, _c, _k),
      what='projection matrix kernels write only the caller\'s frame_size x channels samples and read only their inputs, for non-square shapes too; 24-bit output accumulates round(coefficient x sample / 2^15)'))

import copy as _copy2
for _g in list(GROUPS):
    if _g['name'] == 'proj_matrix_kernels_2x3_k2':
        _h = _copy2.deepcopy(_g); _h.pop('prop', None); _h['name'] = 'proj_matrix_kernels_2x3_k2_functional'; _h['tier'] = 'thorough'; _h['defines'] = _h['defines'] + ['-DVERIF_PM_FUNCTIONAL']; _h['timeout'] = 2400
        _h['what'] = _h['what'] + ' (with the functional clause of the 24-bit output kernel)'
        GROUPS.append(_h)
