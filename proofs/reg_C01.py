GROUPS = []
for _fs in (48000, 24000, 16000, 12000, 8000):
    GROUPS.append(dict(name='decode_native_fs%d' % _fs, cls='P', tu='C01_decode_native.c', entry='h_decode_native', canary='real',
        replace=['opus_decode_frame'], defines=['-DVERIF_FS=%d' % _fs], unwind=2, unwind_fn={'opus_packet_parse_impl': 49}, timeout=1800, expect_canaries=2,
        functions=['opus_decode_native', 'opus_packet_get_samples_per_frame', 'opus_packet_get_mode', 'opus_packet_get_bandwidth', 'opus_packet_get_nb_channels'],
        trusted=['ASSUMED contract of opus_decode_frame (result range, exact duration of a real frame, PLC multiple of 2.5 ms, writes only st fields and pcm[0..frame_size*channels))',
                 'stub of opus_packet_parse_impl carrying exactly the clauses E2-E9 enforced on the real parser under C06',
                 'frame-only stub of opus_pcm_soft_clip (its contract is enforced under C19)'],
        what='opus_decode_native at Fs=%d: result range, argument rules, PLC/FEC exact duration, last_packet_duration, invariant; recursion unwound, PLC and frame loops by contract' % _fs))
META = {}
