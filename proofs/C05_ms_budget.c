/* C05 (multistream API): opus_multistream_encode_native (real body of src/opus_multistream_encoder.c) never lets the
 * packet grow beyond max_data_bytes and returns a length in 1..max_data_bytes or a negative error code, for ANY number
 * of streams (1..255), any buffer size, any frame duration, VBR or CBR, any bitrate setting.
 * The two stream loops run under loop contracts (hook tags ms_enc_rates / ms_enc_streams).  The invariant of the emission
 * loop is the budget argument of the code's own comments made precise: before stream s is coded, the bytes still free
 * cover the smallest possible packets of the streams s..n-1 (two bytes each, one for the last, one more each for
 * 100 ms frames), so every stream is offered at least one (two) byte(s) and the self-delimiting length always fits.
 * Callees are stubs that ASSERT what they are handed and assume the clause established elsewhere:
 *   opus_encode_native   - asserts: output capacity (tmp_data) >= the budget, budget >= 1 (>= 2 for 100 ms frames),
 *                          the selected frame size; assumes (C05/C11 single-stream groups): result < 0 or in 1..budget;
 *   opus_repacketizer_out_range_impl - asserts: write cursor = caller's buffer + bytes so far, window inside the caller's
 *                          buffer, window >= packet + self-delimiting length (1 byte, 2 above 252 bytes), framing flag per
 *                          stream, pad flag only for the last CBR stream; assumes (C07): result in 1..packet+length bytes,
 *                          exactly the window when padding;
 *   frame_size_select    - the clause of C11's frame_size_select group; rate_allocation - see trusted list;
 *   channel look-ups, surround_analysis, opus_encoder_ctl, copy-in: no effect on the byte budget. */
#include "config.h"
#include "common.h"
#include <stdarg.h>
#include <stdlib.h>
#include "opus.h"
#include "opus_multistream.h"
#include "opus_private.h"
#include "celt.h"
#include "stack_alloc.h"
#ifndef VERIF_MT
#define VERIF_MT 0
#endif
#define VERIF_VLA_CAP 11520                 /* 2 x 5760 samples (120 ms at 48 kHz); 21 x 255 band energies */
#if VERIF_MT == 1
#define VERIF_VLA_LEN 5355                  /* what this function itself indexes: 21 x 255 band energies (the sample buffer is only handed on) */
#else
#define VERIF_VLA_LEN 8                     /* no scratch array is indexed by this function unless the mapping type is surround (measured: two 5355-element
                                               local arrays under the loop-contract instrumentation exhaust 16 GB in propositional reduction) */
#endif
#undef ALLOC
#define ALLOC(var, size, type) type var[VERIF_VLA_LEN]; __CPROVER_assert((long)(size) >= 0 && (long)(size) <= VERIF_VLA_CAP, "scratch array request fits the fixed capacity of this harness")
struct OpusEncoder { int dummy[4]; };
#define VERIF_ENC1 16
#define VERIF_ENC2 24
#define VERIF_AL(x) ((((int)(x)) + 7) / 8 * 8)
#define VERIF_HDR VERIF_AL(sizeof(OpusMSEncoder))
int opus_encoder_get_size(int channels) { return channels == 1 ? VERIF_ENC1 : channels == 2 ? VERIF_ENC2 : 0; }

/* ghost state */
opus_int32 g_Fs, g_vbr; int g_n, g_cap, g_frame; unsigned char *g_data0;
int g_nenc, g_nout, g_enc_len; long long g_written;

/* the variadic opus_encoder_ctl cannot be inlined by the loop-contract instrumentation (goto-instrument aborts in
   parameter_assignments): inside this TU its calls are routed, by argument type, to two fixed-arity stubs */
int verif_ctl_i(OpusEncoder *st, int request, opus_int32 v) { (void)st; (void)request; (void)v; return OPUS_OK; }
int verif_ctl_p(OpusEncoder *st, int request, const void *p)
{
   (void)st;
   if (request == OPUS_GET_SAMPLE_RATE_REQUEST) *(opus_int32 *)p = g_Fs;
   else if (request == OPUS_GET_VBR_REQUEST) *(opus_int32 *)p = g_vbr;
   else if (request == CELT_GET_MODE_REQUEST) *(const CELTMode **)p = NULL;
   return OPUS_OK;
}
#define VERIF_CTL_PICK(_1, _2, NAME, ...) NAME
#define VERIF_CTL1(st, req) verif_ctl_i(st, req, 0)
#define VERIF_CTL2(st, req, a) _Generic((a), int: verif_ctl_i, default: verif_ctl_p)(st, req, a)
#define opus_encoder_ctl(st, ...) VERIF_CTL_PICK(__VA_ARGS__, VERIF_CTL2, VERIF_CTL1)(st, __VA_ARGS__)
opus_int32 frame_size_select(opus_int32 frame_size, int variable_duration, opus_int32 Fs)
{  /* contract of the real function (C11 group frame_size_select): -1 or one of the nine durations, not above the request */
   int k = nondet_int(); (void)variable_duration;
   if (nondet_bool()) return -1;
   __CPROVER_assume(k == 1 || k == 2 || k == 4 || k == 8 || k == 16 || k == 24 || k == 32 || k == 40 || k == 48);
   __CPROVER_assume(Fs / 400 * k <= frame_size);
   g_frame = Fs / 400 * k;
   return g_frame;
}
int get_left_channel(const ChannelLayout *layout, int stream_id, int prev) { int r = nondet_int(); (void)stream_id; (void)prev; __CPROVER_assume(0 <= r && r < layout->nb_channels); return r; }
int get_right_channel(const ChannelLayout *layout, int stream_id, int prev) { int r = nondet_int(); (void)stream_id; (void)prev; __CPROVER_assume(0 <= r && r < layout->nb_channels); return r; }
int get_mono_channel(const ChannelLayout *layout, int stream_id, int prev) { int r = nondet_int(); (void)stream_id; (void)prev; __CPROVER_assume(0 <= r && r < layout->nb_channels); return r; }
int validate_layout(const ChannelLayout *layout) { (void)layout; return nondet_int(); }
OpusRepacketizer *opus_repacketizer_init(OpusRepacketizer *rp) { rp->nb_frames = 0; return rp; }
int opus_repacketizer_get_nb_frames(OpusRepacketizer *rp) { return rp->nb_frames; }
int opus_repacketizer_cat(OpusRepacketizer *rp, const unsigned char *data, opus_int32 len)
{
   __CPROVER_assert(len == g_enc_len && len >= 1, "the repacketizer is given exactly the bytes the stream encoder returned");
   (void)data;
   if (nondet_bool()) return OPUS_INVALID_PACKET;
   rp->nb_frames = 1 + (nondet_uchar() % 6);
   return OPUS_OK;
}
opus_int32 opus_encode_native(OpusEncoder *st, const opus_res *pcm, int frame_size, unsigned char *data, opus_int32 out_data_bytes, int lsb_depth,
      const void *analysis_pcm, opus_int32 analysis_size, int c1, int c2, int analysis_channels, downmix_func downmix, int float_api)
{
   opus_int32 r = nondet_int();
   (void)st; (void)pcm; (void)lsb_depth; (void)analysis_pcm; (void)analysis_size; (void)c1; (void)c2; (void)analysis_channels; (void)downmix; (void)float_api;
   __CPROVER_assert(frame_size == g_frame, "every stream codes the selected frame size");
   __CPROVER_assert(out_data_bytes >= 1, "every stream is offered at least one byte");
   __CPROVER_assert(g_Fs / g_frame != 10 || out_data_bytes >= 2, "100 ms frames: every stream is offered at least two bytes");
   __CPROVER_assert(PO(data) == 0 && OS(data) >= out_data_bytes, "the per-stream budget does not exceed the temporary packet buffer");
   __CPROVER_assume(r < 0 || (1 <= r && r <= out_data_bytes));      /* C05 clause of the single-stream encoder */
   g_enc_len = r; g_nenc++;
   return r;
}
opus_int32 opus_repacketizer_out_range_impl(OpusRepacketizer *rp, int begin, int end, unsigned char *data, opus_int32 maxlen,
      int self_delimited, int pad, const opus_extension_data *extensions, int nb_extensions)
{
   opus_int32 r = nondet_int(); int sd = self_delimited ? (g_enc_len > 252 ? 2 : 1) : 0;
   (void)extensions;
   __CPROVER_assert(begin == 0 && end == rp->nb_frames && nb_extensions == 0, "all frames of the stream's packet are emitted");
   __CPROVER_assert(__CPROVER_same_object(data, g_data0) && PO(data) == g_written, "each stream's packet is written where the previous one ended");
   __CPROVER_assert(maxlen >= 0 && g_written + maxlen <= g_cap, "the write window handed to the repacketizer lies inside the caller's buffer (max_data_bytes)");
   __CPROVER_assert(self_delimited == (g_nout != g_n - 1), "self-delimited framing for every stream but the last");
   __CPROVER_assert(!pad || (!g_vbr && g_nout == g_n - 1), "padding only for the last stream of a CBR packet");
   __CPROVER_assert(maxlen >= g_enc_len + sd, "the window has room for the stream's packet plus its self-delimiting length (1 byte, 2 for packets above 252 bytes): the repacketizer cannot fail");
   /* C07: canonical re-framing of one packet is never longer than the packet plus the self-delimiting length; padding fills the window */
   __CPROVER_assume(pad ? r == maxlen : (1 <= r && r <= g_enc_len + sd));
   g_written += r; g_nout++;
   return r;
}
void verif_surround_analysis(const CELTMode *celt_mode, const void *pcm, celt_glog *bandLogE, opus_val32 *mem, opus_val32 *preemph_mem,
      int len, int overlap, int channels, int rate, opus_copy_channel_in_func copy_channel_in, int arch)
{ (void)celt_mode; (void)pcm; (void)bandLogE; (void)mem; (void)preemph_mem; (void)len; (void)overlap; (void)channels; (void)rate; (void)copy_channel_in; (void)arch; }
void verif_copy_in(opus_res *dst, int dst_stride, const void *src, int src_stride, int src_channel, int frame_size, void *user_data)
{ (void)dst; (void)dst_stride; (void)src; (void)src_stride; (void)src_channel; (void)frame_size; (void)user_data; }

#define VERIF_PTR_AT(s, c) ((long long)VERIF_HDR + (long long)((s) < (c) ? (s) : (c)) * VERIF_AL(VERIF_ENC2) + ((s) < (c) ? 0LL : (long long)(s) - (c)) * VERIF_AL(VERIF_ENC1))
#define VERIF_SMALLEST(k) (2LL * (k) - 1 + (Fs / frame_size == 10 ? (long long)(k) : 0LL))
#undef  OPUS_VERIF_LOOP_ms_enc_rates
#define OPUS_VERIF_LOOP_ms_enc_rates \
  __CPROVER_assigns(s, ptr) \
  __CPROVER_loop_invariant(0 <= s && s <= st->layout.nb_streams) \
  __CPROVER_loop_invariant(__CPROVER_same_object(ptr, st) && PO(ptr) == VERIF_PTR_AT(s, st->layout.nb_coupled_streams)) \
  __CPROVER_decreases(st->layout.nb_streams - s)
#undef  OPUS_VERIF_LOOP_ms_enc_streams
#define OPUS_VERIF_LOOP_ms_enc_streams \
  __CPROVER_assigns(s, ptr, tot_size, data, __CPROVER_object_whole(&rp), __CPROVER_object_whole(bandLogE), g_nenc, g_nout, g_enc_len, g_written) \
  __CPROVER_loop_invariant(0 <= s && s <= st->layout.nb_streams && g_nout == s && g_nenc == s) \
  __CPROVER_loop_invariant(__CPROVER_same_object(ptr, st) && PO(ptr) == VERIF_PTR_AT(s, st->layout.nb_coupled_streams)) \
  __CPROVER_loop_invariant(__CPROVER_same_object(data, g_data0) && PO(data) == tot_size && g_written == tot_size && s <= tot_size) \
  __CPROVER_loop_invariant(s < st->layout.nb_streams ==> (long long)max_data_bytes - tot_size >= VERIF_SMALLEST(st->layout.nb_streams - s)) \
  __CPROVER_loop_invariant(s == st->layout.nb_streams ==> tot_size <= max_data_bytes) \
  __CPROVER_decreases(st->layout.nb_streams - s)
#include "/repo/src/opus_multistream_encoder.c"
VERIF_DEFINE_CELT_FATAL
/* rate split: no effect on the byte budget except through the sum used for CBR with OPUS_AUTO (trusted clause below) */
opus_int32 verif_rate_allocation(OpusMSEncoder *st, opus_int32 *rate, int frame_size)
{
   opus_int32 sum = nondet_int(); int smallest = st->layout.nb_streams * 2 - 1 + (g_Fs / frame_size == 10 ? st->layout.nb_streams : 0);
   (void)rate;
   __CPROVER_assume(500 <= sum && sum <= 255 * 750000);
   __CPROVER_assume(st->bitrate_bps != OPUS_AUTO || 3 * (long long)sum / (3 * 8 * g_Fs / frame_size) >= smallest);
   return sum;
}
void *verif_keep[] = { (void *)verif_surround_analysis, (void *)verif_rate_allocation };

void h_ms_budget(void)
{
   int n = nondet_int(), c = nondet_int(), cap = nondet_int(), afs = nondet_int(), ret; opus_int32 Fs = nondet_int();
   char *blk; OpusMSEncoder *st; unsigned char *out; static float pcm[4];
   __CPROVER_assume(Fs == 8000 || Fs == 12000 || Fs == 16000 || Fs == 24000 || Fs == 48000);
   __CPROVER_assume(1 <= n && n <= 255 && 0 <= c && c <= n && n + c <= 255);
   __CPROVER_assume(0 <= cap && cap <= 400000);
   blk = malloc(VERIF_HDR + 255 * VERIF_AL(VERIF_ENC2)); __CPROVER_assume(blk != NULL); st = (OpusMSEncoder *)blk;
   __CPROVER_assert(align(sizeof(OpusMSEncoder)) == VERIF_HDR && align(VERIF_ENC1) == VERIF_AL(VERIF_ENC1) && align(VERIF_ENC2) == VERIF_AL(VERIF_ENC2), "harness: alignment macro matches align()");
   st->layout.nb_streams = n; st->layout.nb_coupled_streams = c;
   __CPROVER_assume(n + c <= st->layout.nb_channels && st->layout.nb_channels <= 255);
   st->mapping_type = VERIF_MT;     /* one group per mapping type (constant, so that the band-energy copies of the surround case are pruned elsewhere) */
   __CPROVER_assume(st->bitrate_bps == OPUS_AUTO || st->bitrate_bps == OPUS_BITRATE_MAX || (st->bitrate_bps >= 500 && st->bitrate_bps <= 750000 * 255));   /* what the ctl accepts (C11) */
   __CPROVER_assume(-1 <= st->lfe_stream && st->lfe_stream < n);
   out = malloc(cap > 0 ? cap : 1); __CPROVER_assume(out != NULL);
   g_Fs = Fs; g_vbr = nondet_bool(); g_n = n; g_cap = cap; g_data0 = out; g_nenc = 0; g_nout = 0; g_written = 0; g_enc_len = 0; g_frame = 0;
   ret = opus_multistream_encode_native(st, verif_copy_in, pcm, afs, out, cap, 24, (downmix_func)0, 1, NULL);
   __CPROVER_assert(ret < 0 || (1 <= ret && ret <= cap), "multistream encode returns a negative error code or a length in 1..max_data_bytes");
   __CPROVER_assert(ret == OPUS_BAD_ARG || ret == OPUS_BUFFER_TOO_SMALL || ret == OPUS_INTERNAL_ERROR || ret > 0 || g_nenc > 0, "errors of its own: OPUS_BAD_ARG (frame size), OPUS_BUFFER_TOO_SMALL, OPUS_INTERNAL_ERROR (a stream packet the repacketizer refuses); anything else comes from a stream encoder");
   if (ret > 0) {
      CANARY("packet produced");
      __CPROVER_assert(g_nenc == n && g_nout == n, "one packet per stream");
      __CPROVER_assert(ret == g_written && g_written <= cap, "the result is the number of bytes written, all inside the caller's buffer");
   }
   if (ret == OPUS_BUFFER_TOO_SMALL) {
      CANARY("buffer too small");
      __CPROVER_assert(g_nenc > 0 || (g_frame > 0 && cap < 2 * n - 1 + (Fs / g_frame == 10 ? n : 0)), "OPUS_BUFFER_TOO_SMALL of its own only below the smallest possible packet (2 bytes per stream, 1 for the last, one more each for 100 ms), before anything is coded");
   }
   CANARY("after ms encode");
}
