/* C17: PVQ codebook: table recurrence, cwrsi / icwrs bijection (real celt/cwrs.c). */
#include "config.h"
#include "common.h"
#include "/repo/celt/cwrs.c"
VERIF_DEFINE_CELT_FATAL

/* extent of the jagged table: row r stores columns r .. VERIF_MAXC(r) */
static int verif_row_off(int r) { return (int)(CELT_PVQ_U_ROW[r] - CELT_PVQ_U_DATA); }
static int verif_maxc(int r) { return r == 14 ? (int)(sizeof(CELT_PVQ_U_DATA)/sizeof(CELT_PVQ_U_DATA[0])) - 1 - verif_row_off(14)
                                              : verif_row_off(r+1) + (r+1) - 1 - verif_row_off(r); }

/* Lemma T1: the row pointers tile CELT_PVQ_U_DATA exactly (row r begins right after row r-1, starting at column r) */
void h_pvq_layout(void)
{
   int r;
   __CPROVER_assert(verif_row_off(0) == 0, "row 0 starts at offset 0");
   for (r = 0; r < 15; r++) {
      __CPROVER_assert(verif_maxc(r) >= r, "row r has at least one entry");
      __CPROVER_assert(verif_row_off(r) + r >= 0 && verif_row_off(r) + verif_maxc(r) < (int)(sizeof(CELT_PVQ_U_DATA)/sizeof(CELT_PVQ_U_DATA[0])), "row inside the data array");
      if (r > 0) __CPROVER_assert(verif_maxc(r) <= verif_maxc(r-1), "rows get shorter (symmetric access U(min,max) stays inside its row)");
   }
   __CPROVER_assert(verif_row_off(14) + 14 == (int)(sizeof(CELT_PVQ_U_DATA)/sizeof(CELT_PVQ_U_DATA[0])) - 1, "last row ends the array");
   CANARY("after layout");
}

/* Lemma T2: base cases and the recurrence U(n,k) = U(n-1,k) + U(n,k-1) + U(n-1,k-1) for every stored entry,
   computed in 64 bits: no entry wraps. (n,k) symbolic. */
void h_pvq_recurrence(void)
{
   int n = nondet_int(), k = nondet_int();
   __CPROVER_assume(0 <= n && n <= 14 && n <= k && k <= verif_maxc(n));
   if (n == 0) {
      __CPROVER_assert(CELT_PVQ_U(0, k) == (k == 0 ? 1u : 0u), "U(0,0) = 1 and U(0,K) = 0 for K > 0 (so V(N,0) = 1 and V(0,K) = 0 as in RFC 6716 4.3.4.2)");
   } else {
      unsigned long long a = CELT_PVQ_U(n-1, k), b = CELT_PVQ_U(n, k-1), c = CELT_PVQ_U(n-1, k-1);
      __CPROVER_assert(a + b + c == (unsigned long long)CELT_PVQ_U(n, k), "U(N,K) = U(N-1,K) + U(N,K-1) + U(N-1,K-1) without 32-bit wrap-around");
   }
   CANARY("after recurrence");
}

/* Bijection for one concrete (N,K) (class B: the grid of pairs is sampled, each pair is exhaustive in the index):
   decoding any index below V(N,K) gives a vector with exactly K pulses that encodes back to that index. */
#ifndef VERIF_PVQ_N
#define VERIF_PVQ_N 3
#endif
#ifndef VERIF_PVQ_K
#define VERIF_PVQ_K 3
#endif
void h_pvq_bijection(void)
{
   const int n = VERIF_PVQ_N, k = VERIF_PVQ_K; int y[VERIF_PVQ_N], j, sum = 0; opus_uint32 i = nondet_uint(), v, back;
   v = CELT_PVQ_V(n, k);
   __CPROVER_assume(i < v);
   cwrsi(n, k, i, y);
   for (j = 0; j < VERIF_PVQ_N; j++) sum += y[j] < 0 ? -y[j] : y[j];
   __CPROVER_assert(sum == k, "decoded vector has exactly K pulses");
   back = icwrs(n, y);
   __CPROVER_assert(back == i, "icwrs(cwrsi(i)) == i");
   CANARY("after bijection");
}
