/* C10: layouts chosen by opus_multistream_surround_encoder_init / _get_size (real src/opus_multistream_encoder.c) for
 * every mapping family and every channel count ("with the layouts the Ogg/RFC 7845/8486 mappings prescribe; invalid
 * layouts are rejected at creation").
 * The real surround init runs verbatim; its callee opus_multistream_encoder_init_impl (static, same file) is redirected
 * (goto-instrument --replace-calls) to a stub that records what it is handed (the real one is checked in the
 * ms_encoder_init group).  The specification below is written from RFC 7845 section 5.1.1 (channel order of families
 * 0, 1, 255) and RFC 8486 section 3.1 (family 2), NOT from the vorbis_mappings table:
 *   - every coded channel (2*coupled + mono) is used by exactly one input channel (a bijection);
 *   - a left/right pair of the Vorbis channel order occupies the two sides of one coupled stream, left first;
 *   - the LFE channel has a mono stream of its own, the last stream, and that stream is the one flagged as LFE;
 *   - family 2: channels = (n+1)^2 + 2j (n = 0..14, j = 0/1), ACN channel k on mono stream k, the optional
 *     non-diegetic stereo pair last in the channel order on the single coupled stream;
 *   - family 255: one mono stream per channel, identity mapping.
 * Finite-complete: channels, Fs, application symbolic; one group per mapping family (0, 1, 2, 255: the family is a constant
 * of the group, so that the other families' fill loops are pruned) and one for every other int family value; the fill loops
 * are unwound to completion (256) with unwinding assertions on. */
#include "config.h"
#include "common.h"
#include <stdarg.h>
#include <stdlib.h>
#include "opus.h"
#include "opus_private.h"
struct OpusEncoder { int channels; };
#define VERIF_ENC1 8200
#define VERIF_ENC2 12400
int opus_encoder_get_size(int channels) { return channels == 1 ? VERIF_ENC1 : channels == 2 ? VERIF_ENC2 : 0; }
#include "/repo/celt/mathops.c"     /* isqrt32 */
#include "/repo/src/opus_multistream.c"
#include "/repo/src/opus_multistream_encoder.c"
VERIF_DEFINE_CELT_FATAL

/* recording stub of the common initialiser */
int g_called, g_channels, g_streams, g_coupled, g_app, g_mtype, g_lfe_at_call, g_impl_ret; opus_int32 g_Fs;
const unsigned char *g_mapping; OpusMSEncoder *g_st;
int verif_init_impl(OpusMSEncoder *st, opus_int32 Fs, int channels, int streams, int coupled_streams,
                    const unsigned char *mapping, int application, MappingType mapping_type)
{
   g_called++; g_st = st; g_Fs = Fs; g_channels = channels; g_streams = streams; g_coupled = coupled_streams;
   g_mapping = mapping; g_app = application; g_mtype = (int)mapping_type; g_lfe_at_call = st->lfe_stream;
   return g_impl_ret;
}

/* RFC 7845 section 5.1.1.2, channel order of mapping family 1 */
enum { P_M, P_FL, P_FC, P_FR, P_SL, P_SR, P_RL, P_RR, P_RC, P_LFE };
static const unsigned char rfc7845_order[8][8] = {
   { P_M },
   { P_FL, P_FR },
   { P_FL, P_FC, P_FR },
   { P_FL, P_FR, P_RL, P_RR },
   { P_FL, P_FC, P_FR, P_RL, P_RR },
   { P_FL, P_FC, P_FR, P_RL, P_RR, P_LFE },
   { P_FL, P_FC, P_FR, P_SL, P_SR, P_RC, P_LFE },
   { P_FL, P_FC, P_FR, P_SL, P_SR, P_RL, P_RR, P_LFE } };
static int right_of(int p) { return p == P_FL ? P_FR : p == P_SL ? P_SR : p == P_RL ? P_RR : -1; }

void h_surround_layout(void)
{
   OpusMSEncoder st; unsigned char mapping[256];
   int channels = nondet_int(), family = nondet_int(), app = nondet_int(); opus_int32 Fs = nondet_int();
   int streams = nondet_int(), coupled = nondet_int(), ret, i, j, q; unsigned char vq; opus_int32 size;
   int legal_ambi = 0, n, acn = 0, nd = 0;
#ifdef VERIF_FAMILY
   family = VERIF_FAMILY;
#else
   __CPROVER_assume(family != 0 && family != 1 && family != 2 && family != 255);
#endif
   q = nondet_int(); __CPROVER_assume(0 <= q && q < 256); vq = mapping[q];
   st.lfe_stream = nondet_int();
   g_called = 0; g_impl_ret = nondet_int();
   for (n = 1; n <= 15; n++) {
      if (channels == n * n) { legal_ambi = 1; acn = n * n; nd = 0; }
      if (channels == n * n + 2) { legal_ambi = 1; acn = n * n; nd = 1; }
   }
   ret = opus_multistream_surround_encoder_init(&st, Fs, channels, family, &streams, &coupled, mapping, app);
   /* the size query is called inside the documented range only: for family 255 it does not check channels <= 255 itself and
      its int arithmetic overflows for absurd counts (recorded assumption, as for the decoder's size query) */
   size = (channels >= 1 && channels <= 255) ? opus_multistream_surround_encoder_get_size(channels, family) : 0;

   __CPROVER_assert(q >= channels ==> mapping[q] == vq, "the mapping table is written for the given number of channels only");
   if (channels < 1 || channels > 255) {
      __CPROVER_assert(ret == OPUS_BAD_ARG && g_called == 0, "a channel count outside 1..255 is rejected with OPUS_BAD_ARG");
      return;
   }
   if (!(family == 0 && channels <= 2) && !(family == 1 && channels <= 8) && family != 255 && !(family == 2 && legal_ambi)) {
#if !defined(VERIF_FAMILY) || VERIF_FAMILY != 255
      CANARY("unsupported family / channel count");
#endif
      __CPROVER_assert(ret < 0 && g_called == 0, "unsupported mapping family / channel count combination is rejected at creation");
      __CPROVER_assert(family == 2 ? ret == OPUS_BAD_ARG : ret == OPUS_UNIMPLEMENTED, "documented error: OPUS_UNIMPLEMENTED (family 0 beyond stereo, family 1 beyond 8 channels, unknown family), OPUS_BAD_ARG (family 2 with a channel count that is not (n+1)^2 [+2])");
      __CPROVER_assert(size == 0, "the size query reports 0 for a combination that creation rejects");
      return;
   }
#ifdef VERIF_FAMILY
   CANARY("supported layout");
#endif
   __CPROVER_assert(g_called == 1 && ret == g_impl_ret, "a supported combination reaches the common initialiser exactly once and its result is returned");
   __CPROVER_assert(g_st == &st && g_Fs == Fs && g_app == app && g_channels == channels && g_mapping == mapping && g_streams == streams && g_coupled == coupled,
                    "the common initialiser is handed the caller's rate, application, channel count and the reported streams / coupled streams / mapping");
   __CPROVER_assert(g_mtype == (family == 2 ? MAPPING_TYPE_AMBISONICS : (family == 1 && channels > 2) ? MAPPING_TYPE_SURROUND : MAPPING_TYPE_NONE),
                    "mapping type: ambisonics for family 2, surround for family 1 beyond stereo, none otherwise");
   __CPROVER_assert(1 <= streams && 0 <= coupled && coupled <= streams && streams + coupled == channels && streams + coupled <= 255,
                    "stream counts: every input channel is coded, streams + coupled streams = channels <= 255");
   i = nondet_int(); j = nondet_int(); __CPROVER_assume(0 <= i && i < channels && 0 <= j && j < channels && i != j);
   __CPROVER_assert(mapping[i] < streams + coupled && mapping[i] != mapping[j], "the mapping is a bijection between input channels and coded channels (no channel dropped, duplicated or muted)");
   __CPROVER_assert(size == align(sizeof(OpusMSEncoder)) + coupled * align(VERIF_ENC2) + (streams - coupled) * align(VERIF_ENC1)
                            + (channels > 2 ? channels * (120 * (int)sizeof(opus_val32) + (int)sizeof(opus_val32)) : 0),
                    "size query = header + one encoder per stream of these counts (+ surround analysis memory beyond stereo)");
   if (family == 0 || family == 1) {
      int p = rfc7845_order[channels - 1][i], pj = rfc7845_order[channels - 1][j];
      if (family == 0) __CPROVER_assert(streams == 1 && coupled == channels - 1 && mapping[i] == i, "family 0: one stream, mono or stereo, identity mapping");
      if (right_of(p) >= 0 && pj == right_of(p))
         __CPROVER_assert(mapping[i] % 2 == 0 && mapping[i] < 2 * coupled && mapping[j] == mapping[i] + 1,
                          "family 1: a left/right pair of the RFC 7845 channel order occupies one coupled stream, left side first");
      if (p == P_LFE)
         __CPROVER_assert(mapping[i] == streams + coupled - 1 && mapping[i] >= 2 * coupled && g_lfe_at_call == streams - 1,
                          "family 1: the LFE channel has a mono stream of its own, the last one, and that stream is flagged as LFE");
      if (channels < 6) __CPROVER_assert(g_lfe_at_call == -1, "no LFE stream for layouts without an LFE channel");
      if (p == P_M || (p == P_FC && channels != 7))
         __CPROVER_assert(mapping[i] >= 2 * coupled, "family 1: a centre / mono channel without a partner is coded as a mono stream");
   } else if (family == 255) {
      __CPROVER_assert(streams == channels && coupled == 0 && mapping[i] == i && g_lfe_at_call == -1, "family 255: one mono stream per channel, identity mapping, no LFE");
   } else {
#if defined(VERIF_FAMILY) && VERIF_FAMILY == 2
      CANARY("ambisonics layout");
#endif
      __CPROVER_assert(channels == acn + 2 * nd && streams == acn + nd && coupled == nd && g_lfe_at_call == -1,
                       "family 2 (RFC 8486): (n+1)^2 ambisonic channels as mono streams plus an optional non-diegetic stereo pair as the one coupled stream");
      __CPROVER_assert(i < acn ? mapping[i] == 2 * nd + i : mapping[i] == i - acn,
                       "family 2: ACN channel k is mono stream k; the non-diegetic pair comes last in the channel order and is the coupled stream's left/right");
   }
}
