/* C16 (class B): generate -> parse round trip and iterator/count/parse agreement on the REAL src/extensions.c,
 * plain CBMC (no contracts, CBMC's byte-precise memcpy), everything symbolic inside the stated bounds. */
#include "config.h"
#include "common.h"
#include "/repo/src/extensions.c"
#include <stdlib.h>
VERIF_DEFINE_CELT_FATAL
#ifndef VERIF_NEXT
#define VERIF_NEXT 2      /* extensions */
#endif
#ifndef VERIF_NFRAMES
#define VERIF_NFRAMES 2
#endif
#ifndef VERIF_PAYLOAD
#define VERIF_PAYLOAD 2   /* max payload bytes of a long extension */
#endif
#define VERIF_BUFMAX (VERIF_NEXT * (VERIF_PAYLOAD + 4) + 4)

void h_ext_roundtrip(void)
{
   opus_extension_data in[VERIF_NEXT], out[VERIF_NEXT + 1];
   unsigned char payload[VERIF_NEXT][VERIF_PAYLOAD];
   unsigned char *buf; int i, j; const int n = VERIF_NEXT, nf = VERIF_NFRAMES; int need, wrote, ret; opus_int32 nout;
   for (i = 0; i < VERIF_NEXT; i++) {
      for (j = 0; j < VERIF_PAYLOAD; j++) payload[i][j] = nondet_uchar();
      in[i].id = nondet_int(); in[i].frame = nondet_int(); in[i].len = nondet_int(); in[i].data = payload[i];
      __CPROVER_assume(3 <= in[i].id && in[i].id <= 127 && 0 <= in[i].frame && in[i].frame < nf);
      __CPROVER_assume(0 <= in[i].len && in[i].len <= (in[i].id < 32 ? 1 : VERIF_PAYLOAD));
   }
   /* dry run gives the size; an exact-size buffer suffices; one byte less is refused */
   need = opus_packet_extensions_generate(NULL, VERIF_BUFMAX, in, n, nf, 0);
   __CPROVER_assert(0 <= need && need <= VERIF_BUFMAX, "dry run succeeds and reports a size");
   {  /* constant-size buffer with sentinels instead of malloc(need): symbolic-size objects do not scale in CBMC; the generator is still
         told len == need, and a write beyond need would destroy a sentinel (checked below through a ghost index) */
      static unsigned char store[VERIF_BUFMAX + 1]; __CPROVER_array_set(store, (unsigned char)0xA5); buf = store; }
   wrote = opus_packet_extensions_generate(buf, need, in, n, nf, 0);
   __CPROVER_assert(wrote == need, "written size equals the dry-run size; an exact-size buffer suffices");
   if (need > 0) {
      int less = opus_packet_extensions_generate(buf, need - 1, in, n, nf, 0);
      __CPROVER_assert(less == OPUS_BUFFER_TOO_SMALL, "a buffer one byte smaller is refused");
      wrote = opus_packet_extensions_generate(buf, need, in, n, nf, 0);
   }
   {  int q = nondet_int(); __CPROVER_assume(need <= q && q <= VERIF_BUFMAX); __CPROVER_assert(buf[q] == 0xA5, "nothing is written beyond the exact-size buffer"); }
   /* parse back: same extensions per frame, per-frame order and payloads preserved */
   __CPROVER_assert(opus_packet_extensions_count(buf, need, nf) == n, "count() reports the number of extensions generated");
   nout = VERIF_NEXT + 1;
   ret = opus_packet_extensions_parse(buf, need, out, &nout, nf);
   __CPROVER_assert(ret == 0 && nout == n, "parse() succeeds and returns as many extensions as were generated");
   {  /* for an arbitrary frame f: the k-th extension of frame f in the input equals the k-th of frame f in the output */
      int f = nondet_int(), k = nondet_int(), a = -1, b = -1, ca = 0, cb = 0;
      __CPROVER_assume(0 <= f && f < nf && 0 <= k && k < VERIF_NEXT);
      for (i = 0; i < VERIF_NEXT; i++) if (i < n && in[i].frame == f) { if (ca == k) a = i; ca++; }
      for (i = 0; i < VERIF_NEXT; i++) if (i < nout && out[i].frame == f) { if (cb == k) b = i; cb++; }
      __CPROVER_assert(ca == cb, "every frame gets back as many extensions as it was given");
      if (a >= 0) {
         CANARY("an extension compared");
         __CPROVER_assert(b >= 0 && out[b].id == in[a].id && out[b].len == in[a].len, "same id and length, in per-frame order");
         for (j = 0; j < VERIF_PAYLOAD; j++) if (j < in[a].len) __CPROVER_assert(out[b].data[j] == in[a].data[j], "identical payload bytes");
         __CPROVER_assert(in[a].len == 0 || (out[b].data >= buf && out[b].data + out[b].len <= buf + need), "parsed payload lies inside the buffer");
      }
   }
   CANARY("after roundtrip");
}

/* arbitrary bytes: iterating, counting and parsing never read outside, never report an extension outside the buffer
   or for a non-existent frame, and agree with each other */
#ifndef VERIF_RAW
#define VERIF_RAW 4
#endif
#ifndef VERIF_RAW_NF
#define VERIF_RAW_NF 2
#endif
void h_ext_arbitrary(void)
{
   const int len = VERIF_RAW, nf = VERIF_RAW_NF; int i, cnt, ret; opus_int32 nout; unsigned char buf[VERIF_RAW];
   opus_extension_data out[VERIF_RAW + 1]; OpusExtensionIterator it; opus_extension_data e; int k, seen = 0;
   for (i = 0; i < VERIF_RAW; i++) if (i < len) buf[i] = nondet_uchar();
   cnt = opus_packet_extensions_count(buf, len, nf);
   nout = VERIF_RAW + 1;
   ret = opus_packet_extensions_parse(buf, len, out, &nout, nf);
   __CPROVER_assert(ret == 0 || ret == OPUS_INVALID_PACKET, "parse returns OK or INVALID_PACKET when the output array is large enough");
   __CPROVER_assert(ret != 0 || nout == cnt, "count() and parse() agree on well-formed input");
   k = nondet_int(); __CPROVER_assume(0 <= k && k < VERIF_RAW);
   if (ret == 0 && k < nout) {
      __CPROVER_assert(out[k].id >= 3 && out[k].id <= 127, "reported extension id in 3..127");
      __CPROVER_assert(out[k].frame >= 0 && out[k].frame < nf, "reported extension belongs to an existing frame");
      __CPROVER_assert(out[k].len >= 0 && out[k].data >= buf && out[k].data + out[k].len <= buf + len, "reported payload lies inside the buffer");
      __CPROVER_assert(out[k].id >= 32 || out[k].len <= 1, "short extensions carry at most one byte");
   }
   opus_extension_iterator_init(&it, buf, len, nf);
   for (i = 0; i <= VERIF_RAW; i++) { int r = opus_extension_iterator_next(&it, &e); if (r <= 0) { __CPROVER_assert(r == ret || (r == 0 && ret == 0), "iterator ends as parse() does"); break; }
      if (ret == 0 && i == k) __CPROVER_assert(e.id == out[k].id && e.frame == out[k].frame && e.data == out[k].data && e.len == out[k].len, "iterator and parse() report the same extensions in the same order");
      seen++; }
   __CPROVER_assert(ret != 0 || seen == cnt, "iterator, count() and parse() agree");
   CANARY("after arbitrary");
}
