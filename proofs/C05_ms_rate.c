/* C05 (multistream rate split): the real rate_allocation / surround_rate_allocation / ambisonics_rate_allocation of
 * src/opus_multistream_encoder.c.  Bounded in the number of streams.  Decides the clause the byte-budget proof
 * (C05_ms_budget.c) assumes of its rate_allocation stub: every stream gets at least 500 b/s, the returned sum is the sum,
 * no arithmetic overflow for any bitrate the ctl can store, and with OPUS_AUTO the summed rate pays for at least the
 * smallest possible packet (2 bytes per stream, 1 for the last, one more each for 100 ms frames), which is what keeps
 * "max_data_bytes = min(max_data_bytes, rate-derived size)" of the CBR path at or above the smallest packet. */
#include "config.h"
#include "common.h"
#include <stdarg.h>
#include <stdlib.h>
#include "opus.h"
#include "opus_private.h"
struct OpusEncoder { int dummy; };
opus_int32 g_Fs;
int opus_encoder_get_size(int channels) { return channels == 1 ? 40 : channels == 2 ? 56 : 0; }
int opus_encoder_ctl(OpusEncoder *st, int request, ...)
{
   va_list ap; va_start(ap, request); (void)st;
   if (request == OPUS_GET_SAMPLE_RATE_REQUEST) { opus_int32 *p = va_arg(ap, opus_int32 *); *p = g_Fs; }
   va_end(ap); return OPUS_OK;
}
#include "/repo/src/opus_multistream.c"
#include "/repo/src/opus_multistream_encoder.c"
VERIF_DEFINE_CELT_FATAL
#ifndef VERIF_ST
#define VERIF_ST 4
#endif
void h_ms_rate(void)
{
   int n = nondet_int(), c = nondet_int(), k = nondet_int(), i, frame_size, smallest; opus_int32 Fs = nondet_int(), rate[256], sum; long long acc = 0;
   char *blk; OpusMSEncoder *st;
   __CPROVER_assume(Fs == 8000 || Fs == 12000 || Fs == 16000 || Fs == 24000 || Fs == 48000);
   __CPROVER_assume(k == 1 || k == 2 || k == 4 || k == 8 || k == 16 || k == 24 || k == 32 || k == 40 || k == 48);
   __CPROVER_assume(1 <= n && n <= VERIF_ST && 0 <= c && c <= n);
   blk = malloc(align(sizeof(OpusMSEncoder)) + 64); __CPROVER_assume(blk != NULL); st = (OpusMSEncoder *)blk;
   st->layout.nb_streams = n; st->layout.nb_coupled_streams = c;
   /* every input channel is coded (the layouts the surround / ambisonics / projection encoders create).  Observation, recorded in
      DESIGN.md 9.4b: with muted input channels (mapping 255) the ctl's clamp of 750 kb/s per INPUT channel allows more than
      4.19 Mb/s per CODED channel, and channel_rate * coupled_ratio then overflows int in surround_rate_allocation. */
   __CPROVER_assume(st->layout.nb_channels == n + c);
   __CPROVER_assume(st->mapping_type == MAPPING_TYPE_NONE || st->mapping_type == MAPPING_TYPE_SURROUND || st->mapping_type == MAPPING_TYPE_AMBISONICS);
   /* lfe_stream: -1, or (surround, >= 6 channels) the last stream, which is then a mono stream */
   __CPROVER_assume(st->lfe_stream == -1 || (st->mapping_type == MAPPING_TYPE_SURROUND && st->lfe_stream == n - 1 && c < n && n >= 2));
   /* what opus_multistream_encoder_ctl(OPUS_SET_BITRATE) stores */
   __CPROVER_assume(st->bitrate_bps == OPUS_AUTO || st->bitrate_bps == OPUS_BITRATE_MAX ||
                    (st->bitrate_bps >= 500 * st->layout.nb_channels && st->bitrate_bps <= 750000 * st->layout.nb_channels));
   g_Fs = Fs; frame_size = Fs / 400 * k;
   sum = rate_allocation(st, rate, frame_size);
   for (i = 0; i < VERIF_ST; i++) if (i < n) { __CPROVER_assert(rate[i] >= 500, "every stream is given at least 500 b/s"); acc += rate[i]; }
   __CPROVER_assert(sum == acc, "the returned rate is the sum of the stream rates");
   smallest = 2 * n - 1 + (Fs / frame_size == 10 ? n : 0);
   if (st->bitrate_bps == OPUS_AUTO) {
      CANARY("automatic bitrate");
      __CPROVER_assert(3 * (long long)sum / (3 * 8 * Fs / frame_size) >= smallest, "OPUS_AUTO: the summed stream rates pay for at least the smallest possible packet (clause assumed by the byte-budget proof)");
   }
   CANARY("after rate allocation");
}
