/* C17: every static inverse-CDF table (real objects from silk/tables_*.c and celt/) is strictly decreasing
 * inside each zero-terminated sub-table and ends at zero.  The list of tables is extracted from /repo on
 * every run (tools/gen_icdf.py); the tables themselves are the real arrays. */
#include "config.h"
#include "common.h"
#include "main.h"
#include "tables.h"
#include "celt.h"
#include "icdf_tables_gen.h"
VERIF_DEFINE_CELT_FATAL

static int verif_tables_checked;
#define VERIF_ICDF(name, label) \
  { const unsigned char *t_ = (const unsigned char *)(name); int n_ = (int)sizeof(name), i_; \
    __CPROVER_assert(n_ >= 1 && t_[n_-1] == 0, "ICDF table " label " ends at zero"); \
    for (i_ = 0; i_ + 1 < n_; i_++) \
       __CPROVER_assert(t_[i_] == 0 || t_[i_] > t_[i_+1], "ICDF table " label " strictly decreasing inside each zero-terminated sub-table"); \
    verif_tables_checked++; }

void h_icdf_tables(void)
{
   verif_tables_checked = 0;
   VERIF_ICDF_ALL
   __CPROVER_assert(verif_tables_checked == VERIF_ICDF_COUNT, "every extracted table was checked");
   CANARY("after icdf tables");
}
