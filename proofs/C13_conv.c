/* C13: sample-format conversion lemmas, loop-free, full domain (real macros from celt/arch.h, celt/float_cast.h,
 * float build).  Built with -U__SSE__ so that float2int is the C99 lrintf branch of float_cast.h; the shipped x86
 * build uses the cvtss2si instruction, which has the same value under round-to-nearest-even (recorded assumption). */
#include "config.h"
#include "common.h"
#include <math.h>
#include "arch.h"
#include "float_cast.h"
#include "mathops.h"

#define SAME_BITS(a,b) (*(unsigned *)&(a) == *(unsigned *)&(b))

/* encoder side: 16-bit, 24-bit (value*256) and float (value/32768) views give bit-identical internal samples */
void h_enc_views(void)
{
   opus_int16 v = nondet_short();
   opus_int32 v24 = 256 * (opus_int32)v;
   float vf = (float)v / 32768.f;
   opus_res a = INT16TORES(v), b = INT24TORES(v24), c = FLOAT2RES(vf);
   __CPROVER_assert(SAME_BITS(a, b), "INT16TORES(v) == INT24TORES(256*v) bit for bit");
   __CPROVER_assert(SAME_BITS(a, c), "INT16TORES(v) == FLOAT2RES(v/32768) bit for bit");
   { celt_sig s1 = INT16TOSIG(v), s2 = INT24TOSIG(v24), s3 = FLOAT2SIG(vf);
     __CPROVER_assert(SAME_BITS(s1, s2) && SAME_BITS(s1, s3), "INT16TOSIG / INT24TOSIG / FLOAT2SIG agree on matched samples"); }
   CANARY("after enc views");
}

/* decoder side: the 16-bit sample is round-to-nearest(2^15 * x) saturated to int16 */
void h_dec_int16(void)
{
   float x = nondet_float(); opus_int16 r; double e; long long q;
   __CPROVER_assume(!isnan(x));
   r = RES2INT16(x);
   if (isinf(x)) { __CPROVER_assert(r == (x > 0 ? 32767 : -32768), "infinities saturate"); }
   else {
      e = (double)x * 32768.0;                     /* exact in double */
      if (e >= 32767.0) q = 32767; else if (e <= -32768.0) q = -32768; else q = llrint(e);
      __CPROVER_assert(r == q, "RES2INT16(x) == saturate16(round-to-nearest-even(32768*x))");
   }
   CANARY("after dec int16");
}

/* decoder side: the 24-bit sample is round-to-nearest(2^23 * x) (for |x| < 256, where it fits 32 bits) */
void h_dec_int24(void)
{
   float x = nondet_float(); opus_int32 r; double e;
   __CPROVER_assume(!isnan(x) && x > -256.f && x < 256.f);
   r = RES2INT24(x);
   e = (double)x * 8388608.0;
   __CPROVER_assert(r == llrint(e), "RES2INT24(x) == round-to-nearest-even(2^23 * x)");
   __CPROVER_assert(RES2FLOAT(x) == x, "float output is the internal sample itself");
   CANARY("after dec int24");
}
