/* Native replay runtime: the proof TU compiled by gcc (-DVERIF_NATIVE) against the real sources.
 * nondet_*() return the values recorded from the verifier's counterexample (in call order),
 * __CPROVER_assume -> exit 77 (replay not applicable), __CPROVER_assert -> print + exit 1. */
#ifndef VERIF_NATIVE_RT_H
#define VERIF_NATIVE_RT_H
#include <stdio.h>
#include <stdlib.h>
#include <string.h>
static long long verif_vals[1 << 16]; static int verif_nvals, verif_pos;
static void verif_load(const char *path)
{
   FILE *f = fopen(path, "r"); long long v;
   if (!f) { fprintf(stderr, "cannot open %s\n", path); exit(2); }
   while (verif_nvals < (1 << 16) && fscanf(f, "%lld", &v) == 1) verif_vals[verif_nvals++] = v;
   fclose(f);
}
static long long verif_next(void) { return verif_pos < verif_nvals ? verif_vals[verif_pos++] : 0; }
int nondet_int(void) { return (int)verif_next(); }
unsigned nondet_uint(void) { return (unsigned)verif_next(); }
unsigned char nondet_uchar(void) { return (unsigned char)verif_next(); }
short nondet_short(void) { return (short)verif_next(); }
long long nondet_ll(void) { return verif_next(); }
_Bool nondet_bool(void) { return verif_next() != 0; }
size_t nondet_size_t(void) { return (size_t)verif_next(); }
float nondet_float(void) { unsigned u = (unsigned)verif_next(); float f; memcpy(&f, &u, 4); return f; }
#define __CPROVER_assume(c) do { if (!(c)) { printf("REPLAY-NOT-APPLICABLE: assumption %s\n", #c); exit(77); } } while (0)
#define __CPROVER_assert(c, msg) do { if (!(c)) { printf("NATIVE-VIOLATION: %s\n", msg); fflush(stdout); exit(1); } } while (0)
#define CANARY(name)
#define CANARY_ASSUME(c)
#define CANARY_SET(lhs, val) ((void)0)
#define VERIF_DEFINE_CELT_FATAL \
  void celt_fatal(const char *str, const char *file, int line) { printf("NATIVE-VIOLATION: celt_fatal %s (%s:%d)\n", str, file, line); fflush(stdout); exit(1); }
#define VERIF_NATIVE_MAIN(h) int main(int argc, char **argv) { if (argc > 1) verif_load(argv[1]); h(); printf("NATIVE-OK\n"); return 0; }
#endif
