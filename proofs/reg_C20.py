GROUPS = [
 dict(name='decide_dtx_mode', cls='P', tu='C20_dtx.c', entry='h_decide_dtx_mode', enforce=['decide_dtx_mode'], timeout=300,
      what='exact transition function of decide_dtx_mode (static, contract on a declaration), loop-free, full domain'),
 dict(name='dtx_step', cls='P', tu='C20_dtx.c', entry='h_dtx_step', dfcc=False, functions=['decide_dtx_mode'], timeout=300,
      what='inductive invariant over the ghost DTX run length: 200 ms start, 400 ms run bound, in-DTX predicate, activity reset'),
]
for (_fs, _ch, _fr, _mb, _tier) in ((16000, 1, 1, 10, 'quick'), (48000, 2, 8, 10, 'quick'), (16000, 2, 24, 6, 'quick'), (48000, 1, 4, 3, 'quick'), (16000, 1, 2, 1, 'quick'),
                                    (8000, 2, 16, 12, 'thorough'), (48000, 2, 2, 40, 'thorough'), (24000, 1, 8, 2, 'thorough')):
    GROUPS.append(dict(name='frame_coder_fs%d_c%df%db%d' % (_fs, _ch, _fr, _mb), cls='B', tu='C20_frame_coder.c', entry='h_frame_coder', dfcc=False, canary='real', expect_canaries=1 + (_mb > 2), cex=False, tier=_tier,
        ignore=[(r'(same object violation|arithmetic overflow on signed -) in (&?st->delay_buffer|pcm_buf|tmp_prefill|data)', 'OPUS_COPY/OPUS_MOVE type-check term 0*((dst)-(src)) (CBMC: pointer difference across objects / negative difference)')],
        defines=['-DVERIF_FS=%d' % _fs, '-U__SSE__', '-DVERIF_CH=%d' % _ch, '-DVERIF_FRAME=%d' % _fr, '-DVERIF_MAXBYTES=%d' % _mb], unwind=_mb + 4, timeout=2400, mem_gb=20, cbmc_flags=['--object-bits', '10', '--no-array-field-sensitivity'],
        replace_calls=['hp_cutoff:verif_hp_cutoff', 'dc_reject:verif_dc_reject', 'gain_fade:verif_gain_fade', 'stereo_fade:verif_stereo_fade',
                       'celt_inner_prod_c:verif_inner_prod', 'compute_frame_energy:verif_compute_frame_energy'],
        functions=['opus_encode_frame_native', 'decide_dtx_mode', 'gen_toc', 'compute_redundancy_bytes', 'compute_silk_rate_for_hybrid', 'ec_enc_init', 'ec_enc_bit_logp', 'ec_enc_uint', 'ec_enc_done', 'ec_enc_shrink'],
        trusted=['ASSUMED frame contracts (stubs) of silk_Encode and celt_encode_with_ec: arbitrary results, leave the range coder in any state satisfying RI_ENC, silk_Encode writes only the output fields of the control block',
                 'stubs for hp_cutoff, dc_reject, gain_fade, stereo_fade, celt_inner_prod, compute_frame_energy, celt_encoder_ctl, opus_packet_pad (buffer extents asserted, results arbitrary)',
                 'FRAME_CODER_PRE and the state invariant assumed at entry: asserted at the call boundary in C11 group encode_native_decisions_*',
                 'scratch arrays pcm_buf/tmp_prefill given a fixed capacity (requested size asserted to fit)',
                 'copies between float sample buffers are not modelled (their content is unconstrained and unread); SILK smoothed cut-off field assumed in [0, 2^24)'],
        bounds='Fs = %d, %d channel(s), frame of %g ms, output budget of exactly %d bytes, no surround energy mask; any encoder state satisfying the invariant, any mode the frame size allows' % (_fs, _ch, _fr * 2.5, _mb),
        what='real opus_encode_frame_native: no user setting written, result range and exact CBR size, TOC announces duration/channels/mode, DTX counter advanced by exactly the frame duration'))
GROUPS.append(dict(name='get_in_dtx', cls='P', tu='C20_frame_coder.c', entry='h_get_in_dtx', dfcc=False, canary='real', expect_canaries=2, cex=False, unwind=2, timeout=600, mem_gb=12,
    defines=['-DVERIF_FS=48000', '-U__SSE__', '-DVERIF_CH=2', '-DVERIF_FRAME=8', '-DVERIF_MAXBYTES=10'], cbmc_flags=['--object-bits', '10', '--no-array-field-sensitivity'],
    functions=['opus_encoder_ctl'], what='OPUS_GET_IN_DTX consults the detector that produces the DTX packets (loop-free, symbolic encoder and SILK state)'))
META = {'cex': {'tu': 'C20_dtx.c', 'entry': 'h_dtx_step', 'unwind': 2, 'timeout': 300}}
