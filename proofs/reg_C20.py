GROUPS = [
 dict(name='decide_dtx_mode', cls='P', tu='C20_dtx.c', entry='h_decide_dtx_mode', enforce=['decide_dtx_mode'], timeout=300,
      what='exact transition function of decide_dtx_mode (static, contract on a declaration), loop-free, full domain'),
 dict(name='dtx_step', cls='P', tu='C20_dtx.c', entry='h_dtx_step', dfcc=False, functions=['decide_dtx_mode'], timeout=300,
      what='inductive invariant over the ghost DTX run length: 200 ms start, 400 ms run bound, in-DTX predicate, activity reset'),
]
META = {'cex': {'tu': 'C20_dtx.c', 'entry': 'h_dtx_step', 'unwind': 2, 'timeout': 300}}
