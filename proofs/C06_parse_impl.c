/* C06: opus_packet_parse_impl — soundness contract enforced for every len (loop contracts). */
#include "config.h"
#include "opus_parse.h"
#include "/repo/src/opus.c"
VERIF_DEFINE_CELT_FATAL

void h_parse_impl(void)
{
   const unsigned char *data; opus_int32 len; int sd; unsigned char *out_toc;
   const unsigned char **frames; opus_int16 *size; int *payload_offset; opus_int32 *packet_offset;
   const unsigned char **padding; opus_int32 *padding_len;
   verif_K = nondet_int();
   CANARY_ASSUME(len <= 8);
   int ret = opus_packet_parse_impl(data, len, sd, out_toc, frames, size, payload_offset, packet_offset, padding, padding_len);
   CANARY("after parse_impl");
#ifndef VERIF_NO_ACCEPT_CANARY
   if (ret > 0) CANARY("accept path");
#endif
}
