/* C07: opus_multistream_packet_unpad / opus_multistream_packet_pad (real bodies of src/repacketizer.c) under the loop
 * contracts ms_unpad_streams / ms_pad_seek: ANY number of streams (1..255), any packet length.
 * Assume-guarantee split at the call boundaries (goto-instrument --replace-calls; the callers stay verbatim):
 *   - the single-stream parser is a stub carrying the clauses enforced under C06 (consumed length inside the packet,
 *     == len in standard framing);
 *   - opus_repacketizer_cat_impl / opus_repacketizer_out_range_impl / opus_packet_pad are stubs that ASSERT what they are
 *     handed (cursor, length, framing, cleared paddings, write window inside the caller's buffer) and assume the frame
 *     contract that the C07 cat / out_range groups discharge on the real bodies, plus one trusted clause: the canonical
 *     re-encoding of one packet is not longer than that packet (checked only bounded, pad_unpad_* groups).
 * A ghost index verif_KS stands for "every stream". */
#include "config.h"
#include "common.h"
#include <stdlib.h>
#include "opus_parse.h"
#include "opus.h"
#include "opus_private.h"
int verif_KS;                       /* ghost: an arbitrary stream index */
int g_nparse, g_ncat, g_nout;       /* ghost: calls so far */
long long g_consumed, g_written;    /* ghost: input bytes consumed / output bytes written so far */
int g_len0; unsigned char *g_data0;
int g_last_po, g_last_sd; const unsigned char *g_last_data;     /* what the parser was last asked / answered */
int g_cat_len, g_cat_frames; OpusRepacketizer *g_cat_rp;
int g_sdK, g_offK, g_lenK, g_woffK, g_wlenK;                    /* stream verif_KS: framing, input extent, output extent */
int g_pad_calls, g_pad_len, g_pad_newlen; long long g_pad_off;

int opus_packet_parse_impl(const unsigned char *data, opus_int32 len, int self_delimited, unsigned char *out_toc,
      const unsigned char *frames[48], opus_int16 size[48], int *payload_offset, opus_int32 *packet_offset,
      const unsigned char **padding, opus_int32 *padding_len)
{
   int ret = nondet_int(), po = nondet_int();
   (void)frames; (void)payload_offset; (void)padding; (void)padding_len; (void)out_toc;
   if (size == NULL || len < 0) return OPUS_BAD_ARG;
   if (len == 0) return OPUS_INVALID_PACKET;
   __CPROVER_assert(__CPROVER_same_object(data, g_data0) && PO(data) == g_consumed && PO(data) + len == g_len0,
                    "each stream's packet starts where the previous one ended and is offered exactly the remaining bytes");
   __CPROVER_assume(ret == OPUS_INVALID_PACKET || (1 <= ret && ret <= 48));
   if (ret < 0) return ret;
   if (RFC_CODE(data[0]) == 3 && len < 2) return OPUS_INVALID_PACKET;
   __CPROVER_assume((RFC_CODE(data[0]) == 3 ? 2 : 1) <= po && po <= len && (self_delimited || po == len));
   if (packet_offset) *packet_offset = po;
   if (g_nparse == verif_KS) { g_sdK = self_delimited; g_offK = (int)PO(data); g_lenK = po; }
   g_last_po = po; g_last_sd = self_delimited; g_last_data = data;
   g_nparse++;
   g_consumed += po;
   return ret;
}
#define opus_packet_parse_impl opus_packet_parse_impl_REAL_UNUSED
#include "/repo/src/opus.c"
#undef opus_packet_parse_impl

/* loop contracts of the two stream walks */
#undef  OPUS_VERIF_LOOP_ms_unpad_streams
#define OPUS_VERIF_LOOP_ms_unpad_streams \
  __CPROVER_assigns(s, toc, packet_offset, data, len, dst, dst_len, __CPROVER_object_whole(size), __CPROVER_object_whole(&rp), \
                    g_nparse, g_ncat, g_nout, g_consumed, g_written, g_last_po, g_last_sd, g_last_data, g_cat_len, g_cat_frames, g_cat_rp, \
                    g_sdK, g_offK, g_lenK, g_woffK, g_wlenK) \
  __CPROVER_loop_invariant(0 <= s && s <= nb_streams && g_nparse == s && g_ncat == s && g_nout == s) \
  __CPROVER_loop_invariant(__CPROVER_same_object(data, g_data0) && 0 <= PO(data) && PO(data) == g_consumed && PO(data) + len == g_len0) \
  __CPROVER_loop_invariant(__CPROVER_same_object(dst, g_data0) && 0 <= PO(dst) && PO(dst) == g_written && g_written == dst_len && g_written <= g_consumed) \
  __CPROVER_loop_invariant(s > 0 ==> (len >= 0 && dst_len >= 1)) \
  __CPROVER_loop_invariant((s > 0 && s == nb_streams) ==> len == 0) \
  __CPROVER_loop_invariant((0 <= verif_KS && verif_KS < s) ==> (g_sdK == (verif_KS != nb_streams - 1) && 0 <= g_offK && g_lenK >= 1 && \
        (long long)g_offK + g_lenK <= g_consumed && 0 <= g_woffK && g_woffK <= g_offK && 1 <= g_wlenK && g_wlenK <= g_lenK && (long long)g_woffK + g_wlenK <= g_written)) \
  __CPROVER_decreases(nb_streams - s)
#undef  OPUS_VERIF_LOOP_ms_pad_seek
#define OPUS_VERIF_LOOP_ms_pad_seek \
  __CPROVER_assigns(s, count, toc, packet_offset, data, len, __CPROVER_object_whole(size), \
                    g_nparse, g_consumed, g_last_po, g_last_sd, g_last_data, g_sdK, g_offK, g_lenK) \
  __CPROVER_loop_invariant(0 <= s && (s <= nb_streams - 1 || s == 0) && g_nparse == s) \
  __CPROVER_loop_invariant(__CPROVER_same_object(data, g_data0) && 0 <= PO(data) && PO(data) == g_consumed && PO(data) + len == g_len0) \
  __CPROVER_loop_invariant(s > 0 ==> len >= 0) \
  __CPROVER_loop_invariant((0 <= verif_KS && verif_KS < s) ==> (g_sdK == 1 && 0 <= g_offK && g_lenK >= 1 && (long long)g_offK + g_lenK <= g_consumed)) \
  __CPROVER_decreases(nb_streams - 1 - s)

#include "/repo/src/extensions.c"
#include "/repo/src/opus_decoder.c"   /* opus_packet_get_nb_frames */
#undef st
#include "/repo/src/repacketizer.c"
VERIF_DEFINE_CELT_FATAL

/* ---- stubs of the in-file callees (calls redirected with --replace-calls) ---- */
int verif_cat_impl(OpusRepacketizer *rp, const unsigned char *data, opus_int32 len, int self_delimited)
{
   int ok = nondet_int(), nf = nondet_int();
   __CPROVER_assert(data == g_last_data && len == g_last_po && self_delimited == g_last_sd,
                    "the repacketizer is fed exactly the packet the parser just delimited (same start, its consumed length, same framing)");
   __CPROVER_assert(rp->nb_frames == 0, "the repacketizer is initialised before each stream");
   g_ncat++;
   if (!ok) return OPUS_INVALID_PACKET;
   __CPROVER_assume(1 <= nf && nf <= 48);
   rp->nb_frames = nf;                 /* the other fields are left as they are: nothing below reads them */
   g_cat_len = len; g_cat_frames = nf; g_cat_rp = rp;
   return OPUS_OK;
}
static int verif_Kf;                   /* ghost: an arbitrary frame index */
opus_int32 verif_out_range_impl(OpusRepacketizer *rp, int begin, int end, unsigned char *data, opus_int32 maxlen,
      int self_delimited, int pad, const opus_extension_data *extensions, int nb_extensions)
{
   int ret = nondet_int();
   __CPROVER_assert(rp == g_cat_rp && begin == 0 && end == g_cat_frames && rp->nb_frames == g_cat_frames, "all frames of the stream's packet are emitted");
   __CPROVER_assert(self_delimited == g_last_sd && pad == 0 && extensions == NULL && nb_extensions == 0, "the stream is re-emitted in its own framing, without padding or extensions");
   __CPROVER_assert(!(0 <= verif_Kf && verif_Kf < g_cat_frames) || (rp->padding_len[verif_Kf] == 0 && rp->paddings[verif_Kf] == NULL), "padding and extensions of every frame are discarded");
   __CPROVER_assert(__CPROVER_same_object(data, g_data0) && PO(data) == g_written, "each stream is written right after the previous one");
   __CPROVER_assert(maxlen >= 0 && PO(data) + maxlen <= g_len0, "the write window handed to the repacketizer lies inside the caller's packet buffer");
   __CPROVER_assert(PO(data) <= PO(g_last_data), "the output position never overtakes the input position (in-place operation)");
   g_nout++;
   __CPROVER_assume(ret == OPUS_BUFFER_TOO_SMALL || (1 <= ret && ret <= maxlen));
   if (ret < 0) return ret;
   __CPROVER_assume(ret <= g_cat_len);          /* trusted: the canonical form of a packet is not longer than the packet */
   if (g_nout - 1 == verif_KS) { g_woffK = (int)PO(data); g_wlenK = ret; }
   g_written += ret;
   return ret;
}
int verif_packet_pad(unsigned char *data, opus_int32 len, opus_int32 new_len)
{
   g_pad_calls++; g_pad_off = PO(data); g_pad_len = len; g_pad_newlen = new_len;
   __CPROVER_assert(__CPROVER_same_object(data, g_data0), "the last stream's packet is padded in the caller's buffer");
   return nondet_bool() ? OPUS_OK : OPUS_INVALID_PACKET;
}

void h_ms_unpad(void)
{
   int len = nondet_int(), n = nondet_int(), ret, k = nondet_int(); unsigned char *data;
   __CPROVER_assume(1 <= n && n <= 255);
   __CPROVER_assume(0 <= k && k < n);
   data = malloc(len > 0 ? len : 1); __CPROVER_assume(data != NULL);
   g_nparse = g_ncat = g_nout = 0; g_consumed = g_written = 0; g_len0 = len; g_data0 = data; verif_KS = k; verif_Kf = nondet_int();
   ret = opus_multistream_packet_unpad(data, len, n);
   __CPROVER_assert(len >= 1 || ret == OPUS_BAD_ARG, "len < 1 is OPUS_BAD_ARG");
   __CPROVER_assert(ret == OPUS_BAD_ARG || ret == OPUS_INVALID_PACKET || ret == OPUS_BUFFER_TOO_SMALL || (0 < ret && ret <= len), "result is an error code or a length in (0, len]: unpadding never lengthens");
   if (ret > 0) {
      CANARY("unpadded");
      __CPROVER_assert(g_nparse == n && g_ncat == n && g_nout == n, "every stream is parsed, collected and re-emitted exactly once");
      __CPROVER_assert(g_consumed == len, "the streams' packets tile the input");
      __CPROVER_assert(g_written == ret, "the result is the total number of bytes written");
      __CPROVER_assert(g_sdK == (k != n - 1), "every stream but the last is in self-delimited framing");
      __CPROVER_assert(g_woffK <= g_offK && g_wlenK <= g_lenK && (long long)g_woffK + g_wlenK <= ret, "stream k is written at or before its old position, not longer than before, inside the result");
   }
   CANARY("after ms unpad");
}

void h_ms_pad(void)
{
   int len = nondet_int(), new_len = nondet_int(), n = nondet_int(), ret, k = nondet_int(); unsigned char *data;
   __CPROVER_assume(1 <= n && n <= 255);
   __CPROVER_assume(0 <= k && (k < n - 1 || n == 1));
   __CPROVER_assume(new_len >= 0);
   data = malloc(new_len > 0 ? new_len : 1); __CPROVER_assume(data != NULL);
   g_nparse = 0; g_consumed = 0; g_len0 = len; g_data0 = data; verif_KS = k; g_pad_calls = 0;
   if (len > new_len) {       /* the caller's buffer need not hold len bytes in this case: nothing may be read or written */
      ret = opus_multistream_packet_pad(data, len, new_len, n);
      __CPROVER_assert(ret == OPUS_BAD_ARG && g_nparse == 0 && g_pad_calls == 0, "len > new_len (or len < 1) is OPUS_BAD_ARG, nothing touched");
      return;
   }
   ret = opus_multistream_packet_pad(data, len, new_len, n);
   __CPROVER_assert(len >= 1 || (ret == OPUS_BAD_ARG && g_nparse == 0 && g_pad_calls == 0), "len < 1 is OPUS_BAD_ARG, nothing touched");
   __CPROVER_assert(!(len >= 1 && len == new_len) || (ret == OPUS_OK && g_nparse == 0 && g_pad_calls == 0), "len == new_len is OPUS_OK with nothing touched");
   if (len >= 1 && len < new_len && g_pad_calls > 0) {
      CANARY("padded");
      __CPROVER_assert(g_pad_calls == 1 && g_nparse == n - 1, "the first n-1 streams are skipped, the last one is padded once");
      __CPROVER_assert(g_pad_off == g_consumed && g_pad_off + g_pad_len == len, "the packet handed to opus_packet_pad is the last stream: everything after the skipped streams");
      __CPROVER_assert((long long)g_pad_newlen - g_pad_len == (long long)new_len - len && g_pad_off + g_pad_newlen == new_len, "it grows by exactly new_len - len, ending at new_len");
      __CPROVER_assert(n - 1 <= 0 || k >= n - 1 || g_sdK == 1, "skipped streams are parsed in self-delimited framing");
   }
   __CPROVER_assert(ret == OPUS_OK || ret == OPUS_BAD_ARG || ret == OPUS_INVALID_PACKET, "result is OK, BAD_ARG or INVALID_PACKET");
   CANARY("after ms pad");
}
