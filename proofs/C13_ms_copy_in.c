/* C13 "the multistream API obeys the same relations stream by stream": the three input copy functions of the multistream encoder
 * (REAL static functions of src/opus_multistream_encoder.c) take the same audio given as int16, int24 (value x 256) or float
 * (value / 32768) to bit-identical internal samples, pick the requested channel of the interleaved input, and write with the
 * requested stride only.  Concrete small frame (N samples), strides and channel symbolic inside the stated bounds. */
#include "config.h"
#include "common.h"
#include <stdlib.h>
#include "opus.h"
#include "opus_private.h"
#include "/repo/src/opus_multistream.c"
#include "/repo/src/opus_multistream_encoder.c"
VERIF_DEFINE_CELT_FATAL
#ifndef VERIF_N
#define VERIF_N 3
#endif
#define MAXS 3
#define BITSF(f) (*(unsigned *)&(f))
void h_ms_copy_in(void)
{
   static opus_int16 s16[VERIF_N * MAXS]; static opus_int32 s24[VERIF_N * MAXS]; static float sf[VERIF_N * MAXS];
   static opus_res d16[VERIF_N * 2], d24[VERIF_N * 2], df[VERIF_N * 2]; int ss = nondet_int(), ch = nondet_int(), ds = nondet_int(), i, k;
   __CPROVER_assume(1 <= ss && ss <= MAXS && 0 <= ch && ch < ss && (ds == 1 || ds == 2));
   for (i = 0; i < VERIF_N * MAXS; i++) { s16[i] = nondet_short(); s24[i] = 256 * (opus_int32)s16[i]; sf[i] = (float)s16[i] * (1.f / 32768.f); }
   for (i = 0; i < VERIF_N * 2; i++) { d16[i] = 7.f; d24[i] = 7.f; df[i] = 7.f; }
   opus_copy_channel_in_short(d16, ds, s16, ss, ch, VERIF_N, NULL);
   opus_copy_channel_in_int24(d24, ds, s24, ss, ch, VERIF_N, NULL);
   opus_copy_channel_in_float(df, ds, sf, ss, ch, VERIF_N, NULL);
   k = nondet_int(); __CPROVER_assume(0 <= k && k < VERIF_N);
   __CPROVER_assert(BITSF(d16[k * ds]) == BITSF(d24[k * ds]) && BITSF(d16[k * ds]) == BITSF(df[k * ds]), "int16, int24 (x256) and float (/32768) input give bit-identical internal samples in the multistream encoder");
   __CPROVER_assert(d16[k * ds] == INT16TORES(s16[k * ss + ch]), "the copy picks sample k of the requested channel of the interleaved input");
   if (ds == 2) __CPROVER_assert(d16[2 * k + 1] == 7.f && d24[2 * k + 1] == 7.f && df[2 * k + 1] == 7.f, "with stride 2 the other channel of the destination is untouched");
   CANARY("after copy in");
}
