/* C10 "decoding gives, for every output channel, bit-for-bit the samples that a stand-alone decoder produces for the mapped stream
 * and side, and exact silence for channels mapped to 255": the routing of the REAL opus_multistream_decode_native /
 * opus_multistream_decode_float / opus_multistream_decode (src/opus_multistream_decoder.c) with the real look-ups
 * get_left/right/mono_channel and the real copy_channel_out functions.  The per-stream decoder is a stub that produces a
 * known, distinct sample for every (stream, side, index); concrete shape per group (channels, streams, coupled, frame size),
 * mapping bytes symbolic (any valid layout).  Lost-packet call (len == 0): the packet walk is the subject of ms_packet_validate. */
#include "config.h"
#include "common.h"
#include <stdarg.h>
#include <stdlib.h>
#include "opus.h"
#include "opus_private.h"
#include "arch.h"
#include "float_cast.h"
#define DEC_SZ 16
#ifndef VERIF_C
#define VERIF_C 3
#define VERIF_S 2
#define VERIF_CP 1
#define VERIF_N 2
#endif
static char *g_base; static int g_ret, g_calls, g_bad_args;
#define VAL(s, side, i) ((float)(1000 * (s) + 1100 * (side) + (i) + 1) / 1024.0f * (((s) + (side)) & 1 ? -1.f : 1.f))     /* exactly representable, distinct, both signs, some beyond +-1 so that the 16-bit path has to saturate */
int opus_decoder_get_size(int channels) { (void)channels; return DEC_SZ; }
int opus_decoder_init(OpusDecoder *st, opus_int32 Fs, int channels) { (void)st; (void)Fs; (void)channels; return OPUS_OK; }
int opus_decoder_ctl(OpusDecoder *st, int request, ...)
{ va_list ap; (void)st; va_start(ap, request); if (request == OPUS_GET_SAMPLE_RATE_REQUEST) { opus_int32 *v = va_arg(ap, opus_int32 *); *v = 48000; } va_end(ap); return OPUS_OK; }
int opus_decode_native(OpusDecoder *st, const unsigned char *data, opus_int32 len, opus_res *pcm, int frame_size, int decode_fec, int self_delimited,
      opus_int32 *packet_offset, int soft_clip, const OpusDRED *dred, opus_int32 dred_offset)
{
   int s = (int)(((char *)st - g_base) / (int)align(DEC_SZ)), i, coupled = s < VERIF_CP;
   (void)data; (void)decode_fec; (void)soft_clip; (void)dred; (void)dred_offset;
   g_calls++;
   if (!(len == 0 && frame_size == (s == 0 ? VERIF_N : g_ret) && self_delimited == (s != VERIF_S - 1) && s >= 0 && s < VERIF_S)) g_bad_args++;
   __CPROVER_assert(__CPROVER_w_ok(pcm, (size_t)frame_size * (coupled ? 2 : 1) * sizeof(opus_res)), "per-stream decoder gets a buffer for its channel count");
   for (i = 0; i < VERIF_N; i++) if (i < g_ret) { if (coupled) { pcm[2 * i] = VAL(s, 0, i); pcm[2 * i + 1] = VAL(s, 1, i); } else pcm[i] = VAL(s, 0, i); }
   if (packet_offset) *packet_offset = 0;
   return g_ret;
}
int opus_packet_parse_impl(const unsigned char *data, opus_int32 len, int self_delimited, unsigned char *out_toc, const unsigned char *frames[48], opus_int16 size[48],
      int *payload_offset, opus_int32 *packet_offset, const unsigned char **padding, opus_int32 *padding_len)
{ (void)data; (void)len; (void)self_delimited; (void)out_toc; (void)frames; (void)size; (void)payload_offset; (void)packet_offset; (void)padding; (void)padding_len; __CPROVER_assert(0, "parser not reachable on a lost-packet call"); return -4; }
int opus_packet_get_nb_samples(const unsigned char packet[], opus_int32 len, opus_int32 Fs) { (void)packet; (void)len; (void)Fs; return -4; }
void opus_pcm_soft_clip_impl(float *x, int N, int C, float *mem, int arch) { (void)x; (void)N; (void)C; (void)mem; (void)arch; }
#include "/repo/src/opus_multistream.c"
#include "/repo/src/opus_multistream_decoder.c"
VERIF_DEFINE_CELT_FATAL
typedef struct { OpusMSDecoder ms; char decs[VERIF_S * 16 + 16]; } ms_block;
#define BITSF(f) (*(unsigned *)&(f))
void h_ms_routing(void)
{
   ms_block blk; OpusMSDecoder *st = &blk.ms; static float out[VERIF_N * VERIF_C]; static opus_int16 out16[VERIF_N * VERIF_C]; int c, i, m, ret, k, use16 = nondet_int() & 1; float want;
   st->layout.nb_channels = VERIF_C; st->layout.nb_streams = VERIF_S; st->layout.nb_coupled_streams = VERIF_CP;
   for (k = 0; k < VERIF_C; k++) { st->layout.mapping[k] = nondet_uchar(); CANARY_SET(st->layout.mapping[k], (unsigned char)(k < VERIF_S + VERIF_CP ? k : 255)); }
   __CPROVER_assume(validate_layout(&st->layout));        /* init accepts only such layouts (C10 validate_layout group) */
   g_base = (char *)st + align(sizeof(OpusMSDecoder));
   g_ret = nondet_int(); __CPROVER_assume(g_ret >= -7 && g_ret <= VERIF_N); CANARY_SET(g_ret, VERIF_N);
   for (k = 0; k < VERIF_N * VERIF_C; k++) { out[k] = 77.f; out16[k] = 77; }
   g_calls = 0; g_bad_args = 0;
   ret = use16 ? opus_multistream_decode(st, NULL, 0, out16, VERIF_N, 0) : opus_multistream_decode_float(st, NULL, 0, out, VERIF_N, 0);
   __CPROVER_assert(g_bad_args == 0, "every stream decoder is called for its own stream, with the common frame size, self-delimited framing for all but the last");
   if (g_ret <= 0) { __CPROVER_assert(ret == g_ret && g_calls == 1, "a failing stream decoder ends the call with its error"); return; }
   CANARY("decoded");
   __CPROVER_assert(ret == g_ret && g_calls == VERIF_S, "all streams decoded, result is the common sample count");
   c = nondet_int(); i = nondet_int(); __CPROVER_assume(0 <= c && c < VERIF_C && 0 <= i && i < g_ret);
   m = st->layout.mapping[c];
   want = m == 255 ? 0.f : m < 2 * VERIF_CP ? VAL(m / 2, m % 2, i) : VAL(m - VERIF_CP, 0, i);
   if (use16) __CPROVER_assert(out16[i * VERIF_C + c] == (opus_int16)FLOAT2INT16(want), "16-bit output: channel c carries the mapped stream and side (silence for 255), converted like the stand-alone decoder does");
   else __CPROVER_assert(BITSF(out[i * VERIF_C + c]) == BITSF(want), "float output: channel c carries bit-for-bit the samples of the mapped stream and side, exact silence for 255");
   k = nondet_int(); __CPROVER_assume(g_ret <= k && k < VERIF_N);
   if (c < VERIF_C) __CPROVER_assert(use16 ? out16[k * VERIF_C + c] == 77 : out[k * VERIF_C + c] == 77.f, "nothing is written beyond the decoded sample count");
}
