# C05 (partial): the two named mechanisms that are functions -- the range encoder's output guards and the
# repacketizer/pad length arithmetic.  The groups are the same proof units as under C08 / C07 (same TU, same contract
# text); they are re-run here so that C05's evidence is produced by its own check.
import copy
from proofs import reg_C08, reg_C07
_WANT8 = ['ec_write_byte', 'ec_write_byte_at_end', 'ec_enc_carry_out', 'ec_enc_bits', 'ec_enc_shrink', 'ec_enc_done', 'ec_enc_init']
GROUPS = [copy.deepcopy(g) for g in reg_C08.GROUPS if g['name'] in _WANT8 or g['name'].startswith('inv_collide_')]
for g in GROUPS:
    g.pop('prop', None)
    g['what'] = 'buffer limit of the range encoder: ' + g['what'] + ' (writes only buf[0..storage), sets error instead of overrunning)'
for g in reg_C07.GROUPS:
    if g['name'] in ('out_range_size_c2', 'out_range_size_c3'):
        # the repacketizer's length arithmetic decides the size of every multi-frame packet the encoder returns
        h = copy.deepcopy(g); h.pop('prop', None)
        h['what'] = 'multi-frame packets are assembled by the repacketizer: ' + h.get('what', '') + ' (result <= maxlen, refused cleanly when too small, exact canonical size)'
        GROUPS.append(h)
    if g['name'] == 'repack_two_2_2':
        h = copy.deepcopy(g); h.pop('prop', None); h['name'] = 'repack_maxlen_b'
        h['what'] = 'repacketizer output never exceeds maxlen, is refused cleanly when too small (bounded)'
        GROUPS.append(h)
META = dict(reg_C08.META)

# shared with C11 (same TU, same harness): only the assertions named in 'focus' are this property's; the others are decided under C11
import copy as _copy
from proofs import reg_C11 as _reg_C11
for _g in _reg_C11.GROUPS:
    if _g['name'] == 'encode_native_decisions_fs8000':
        _h = _copy.deepcopy(_g); _h.pop('prop', None); _h['focus'] = ['^CBR', 'never reports more bytes', 'no output space']; _h['what'] = 'CBR size fixed by opus_encode_native: round(bitrate x duration / 8) clipped; OPUS_BITRATE_MAX fills the buffer; returned length within the buffer'
        GROUPS.append(_h)

for _mt, _mtn, _tier in ((0, 'none', 'quick'), (2, 'ambisonics', 'quick'), (1, 'surround', 'off')):
  GROUPS.append(dict(name='ms_encode_budget_' + _mtn, tier=_tier, defines=['-DVERIF_MT=%d' % _mt], cls='P', tu='C05_ms_budget.c', entry='h_ms_budget', canary='real', expect_canaries=3, unwind=1, unwind_fn={'opus_multistream_encode_native': 22}, timeout=1500, mem_gb=16,
      replace_calls=['surround_analysis:verif_surround_analysis', 'rate_allocation:verif_rate_allocation'],
      functions=['opus_multistream_encode_native'],
      trusted=['stub of opus_encode_native asserting the budget it is offered and assuming the single-stream C05 clause (result < 0 or in 1..budget)',
               'stub of opus_repacketizer_out_range_impl asserting its window and assuming the C07 clause (re-framing one packet yields at most packet + self-delimiting length bytes; padding fills the window)',
               'contract stub of frame_size_select (enforced on the real function under C11), stubs of the channel look-ups (C10), opus_encoder_ctl, surround_analysis',
               'rate_allocation replaced by a stub: assumed clause "with OPUS_AUTO the summed stream rates pay for at least the smallest packet" (2-3 bytes per stream), discharged on the real rate_allocation for <= 8 streams only (bounded group ms_rate_allocation); the per-stream rates themselves have no effect on the byte budget'],
      bounds='mapping type ' + _mtn + ' (one group per mapping type); everything else symbolic',
      what='multistream encoder byte budget for any number of streams (1..255) under loop contracts on both stream loops: every stream is offered >= 1 byte (>= 2 for 100 ms), the self-delimiting length always fits, each packet is written where the previous one ended inside max_data_bytes, result in 1..max_data_bytes or a negative error; OPUS_BUFFER_TOO_SMALL only below the smallest possible packet'))

GROUPS.append(dict(name='ms_rate_allocation', cls='B', tu='C05_ms_rate.c', entry='h_ms_rate', dfcc=False, canary='real', expect_canaries=2, unwind=10, defines=['-DVERIF_ST=8'], timeout=1500, mem_gb=12,
    functions=['rate_allocation', 'surround_rate_allocation', 'ambisonics_rate_allocation'],
    trusted=['stub of opus_encoder_ctl (sample-rate query)'],
    bounds='<= 8 streams, every input channel coded (coupled count, LFE, mapping type, bitrate setting, rate and frame duration symbolic)',
    what='multistream rate split: >= 500 b/s per stream, sum returned, no overflow for any storable bitrate, and the OPUS_AUTO clause the byte-budget proof assumes of its rate_allocation stub'))
