# C05 (partial): the two named mechanisms that are functions -- the range encoder's output guards and the
# repacketizer/pad length arithmetic.  The groups are the same proof units as under C08 / C07 (same TU, same contract
# text); they are re-run here so that C05's evidence is produced by its own check.
import copy
from proofs import reg_C08, reg_C07
_WANT8 = ['ec_write_byte', 'ec_write_byte_at_end', 'ec_enc_carry_out', 'ec_enc_bits', 'ec_enc_shrink', 'ec_enc_done', 'ec_enc_init']
GROUPS = [copy.deepcopy(g) for g in reg_C08.GROUPS if g['name'] in _WANT8]
for g in GROUPS:
    g.pop('prop', None)
    g['what'] = 'buffer limit of the range encoder: ' + g['what'] + ' (writes only buf[0..storage), sets error instead of overrunning)'
for g in reg_C07.GROUPS:
    if g['name'] == 'repack_two_2_2':
        h = copy.deepcopy(g); h.pop('prop', None); h['name'] = 'repack_maxlen_b'
        h['what'] = 'repacketizer output never exceeds maxlen, is refused cleanly when too small (bounded)'
        GROUPS.append(h)
META = dict(reg_C08.META)
