/* C10: multistream decoder (real src/opus_multistream_decoder.c): packet walk / equal-duration rule of
 * opus_multistream_packet_validate, argument validation of get_size / init, per-stream state layout.
 * The single-stream parser is a stub carrying the clauses enforced under C06 (incl. the consumed length);
 * opus_decoder_get_size / opus_decoder_init are stubs with the sizes of the shipped build (they are C11's). */
#include "config.h"
#include "common.h"
#include <stdlib.h>
#include "opus_parse.h"
#include "opus.h"
#include "opus_private.h"
static int g_sd[4], g_ncalls, g_cnt[4]; static unsigned char g_toc[4];
int opus_packet_parse_impl(const unsigned char *data, opus_int32 len, int self_delimited, unsigned char *out_toc,
      const unsigned char *frames[48], opus_int16 size[48], int *payload_offset, opus_int32 *packet_offset,
      const unsigned char **padding, opus_int32 *padding_len)
{
   int ret = nondet_int(), po = nondet_int();
   (void)frames; (void)payload_offset; (void)padding; (void)padding_len; (void)out_toc;
   if (size == NULL || len < 0) return OPUS_BAD_ARG;
   if (len == 0) return OPUS_INVALID_PACKET;
   __CPROVER_assume(ret == OPUS_INVALID_PACKET || (1 <= ret && ret <= 48));
   if (ret < 0) return ret;
   if (RFC_CODE(data[0]) == 3 && len < 2) return OPUS_INVALID_PACKET;
   __CPROVER_assume(ret * RFC_SPF48(data[0]) <= 5760);
   __CPROVER_assume(ret == (RFC_CODE(data[0]) == 0 ? 1 : RFC_CODE(data[0]) < 3 ? 2 : (data[1] & 0x3F)));
   __CPROVER_assume((RFC_CODE(data[0]) == 3 ? 2 : 1) <= po && po <= len && (self_delimited || po == len));
   if (packet_offset) *packet_offset = po;
   if (g_ncalls < 4) { g_sd[g_ncalls] = self_delimited; g_cnt[g_ncalls] = ret; g_toc[g_ncalls] = data[0]; }
   g_ncalls++;
   return ret;
}
/* the real TOC helpers come from src/opus.c and src/opus_decoder.c; the functions stubbed here are renamed out of
   the way in those files (mechanical renaming, nothing dropped) */
#define opus_packet_parse_impl opus_packet_parse_impl_REAL_UNUSED
#include "/repo/src/opus.c"
#undef opus_packet_parse_impl
#define opus_decoder_get_size opus_decoder_get_size_REAL_UNUSED
#define opus_decoder_init opus_decoder_init_REAL_UNUSED
#include "/repo/src/opus_decoder.c"
#undef opus_decoder_get_size
#undef opus_decoder_init
#undef st
#define VERIF_DEC_SIZE(ch) ((ch) == 1 ? 18260 : 27028)      /* opus_decoder_get_size of the shipped build */
static int g_init_calls, g_init_ch[4]; static char *g_init_ptr[4];
int opus_decoder_get_size(int channels) { return channels == 1 || channels == 2 ? VERIF_DEC_SIZE(channels) : 0; }
int opus_decoder_init(OpusDecoder *st, opus_int32 Fs, int channels) { (void)Fs; if (g_init_calls < 4) { g_init_ch[g_init_calls] = channels; g_init_ptr[g_init_calls] = (char *)st; } g_init_calls++; return OPUS_OK; }
#include "/repo/src/opus_multistream.c"
#include "/repo/src/opus_multistream_decoder.c"
VERIF_DEFINE_CELT_FATAL

#ifndef VERIF_STREAMS
#define VERIF_STREAMS 3
#endif
/* packet walk: every stream but the last is parsed in self-delimited framing, the walk stays inside the packet, all
   streams have the same duration (frames x samples per frame), the result is that duration */
void h_ms_validate(void)
{
   int len = nondet_int(), n = nondet_int(), ret, i; opus_int32 Fs = nondet_int(); unsigned char *data;
   __CPROVER_assume(Fs == 8000 || Fs == 12000 || Fs == 16000 || Fs == 24000 || Fs == 48000);
   __CPROVER_assume(1 <= n && n <= VERIF_STREAMS && 0 <= len && len <= 4000);
   data = malloc(len > 0 ? len : 1); __CPROVER_assume(data != NULL);
   g_ncalls = 0;
   ret = opus_multistream_packet_validate(data, len, n, Fs);
   __CPROVER_assert(ret == OPUS_INVALID_PACKET || ret == OPUS_BAD_ARG || (ret > 0 && ret * 25 <= Fs * 3), "result is an error or a duration of at most 120 ms");
   if (ret > 0) {
      CANARY("valid multistream packet");
      __CPROVER_assert(g_ncalls == n, "one single-stream packet per stream");
      for (i = 0; i < VERIF_STREAMS; i++) if (i < n) __CPROVER_assert(g_sd[i] == (i != n - 1), "every stream but the last uses self-delimited framing");
      for (i = 0; i < VERIF_STREAMS; i++) if (i < n)
         __CPROVER_assert(g_cnt[i] * opus_packet_get_samples_per_frame(&g_toc[i], Fs) == ret, "every stream has the same duration (frame count x samples per frame), equal to the result");
   }
   CANARY("after ms validate");
}

/* get_size / init: invalid stream counts rejected; per-stream decoder states laid out back to back inside get_size() */
void h_ms_decoder_init(void)
{
   int streams = nondet_int(), coupled = nondet_int(), channels = nondet_int(), size, ret, i; opus_int32 Fs = nondet_int();
   unsigned char mapping[256]; OpusMSDecoder *st; char *base;
   int counts_ok = !(coupled > streams || streams < 1 || coupled < 0 || streams > 255 - coupled);
   __CPROVER_assume(streams <= 3);      /* bound on the stream loops of init (class B in the number of streams) */
   size = opus_multistream_decoder_get_size(streams, coupled);
   __CPROVER_assert((size == 0) == !counts_ok, "get_size is 0 exactly for illegal stream counts");
   __CPROVER_assert(!counts_ok || size == align(sizeof(OpusMSDecoder)) + coupled * align(VERIF_DEC_SIZE(2)) + (streams - coupled) * align(VERIF_DEC_SIZE(1)), "get_size = header + per-stream decoder sizes");
   if (!counts_ok) {
      OpusMSDecoder dummy;
      __CPROVER_assume(channels <= 4);
      ret = opus_multistream_decoder_init(&dummy, Fs, channels, streams, coupled, mapping);
      __CPROVER_assert(ret == OPUS_BAD_ARG, "init rejects illegal stream counts");
      CANARY("illegal counts"); return;
   }
   __CPROVER_assume(channels <= 4);
   for (i = 0; i < 4; i++) mapping[i] = nondet_uchar();
   base = malloc(size); __CPROVER_assume(base != NULL); st = (OpusMSDecoder *)base;
   g_init_calls = 0;
   ret = opus_multistream_decoder_init(st, Fs, channels, streams, coupled, mapping);
   if (channels < 1) { __CPROVER_assert(ret == OPUS_BAD_ARG, "init rejects channels < 1"); return; }
   {  int layout_ok = 1; for (i = 0; i < 4; i++) if (i < channels && mapping[i] != 255 && mapping[i] >= streams + coupled) layout_ok = 0;
      __CPROVER_assert((ret == OPUS_OK) == layout_ok, "init accepts exactly the layouts whose entries name an existing coded channel or 255");
   }
   if (ret == OPUS_OK) {
      CANARY("init ok");
      __CPROVER_assert(g_init_calls == streams, "one decoder per stream is initialised");
      for (i = 0; i < 3; i++) if (i < streams) {
         __CPROVER_assert(g_init_ch[i] == (i < coupled ? 2 : 1), "coupled streams first (stereo), then mono");
         __CPROVER_assert(g_init_ptr[i] - base == align(sizeof(OpusMSDecoder)) + (i < coupled ? i : coupled) * align(VERIF_DEC_SIZE(2)) + (i < coupled ? 0 : i - coupled) * align(VERIF_DEC_SIZE(1)),
                          "stream states are laid out back to back after the header");
         __CPROVER_assert(g_init_ptr[i] - base + VERIF_DEC_SIZE(g_init_ch[i]) <= size, "every stream state lies inside get_size() bytes");
      }
   }
}
