/* C08/C01: range decoder — per-operation contracts enforced on the real bodies. */
#include "config.h"
#include "entcode_contracts.h"
#include "/repo/celt/entcode.c"
#include "/repo/celt/entdec.c"
VERIF_DEFINE_CELT_FATAL

void h_ec_read_byte(void)          { ec_dec *d; ec_read_byte(d); CANARY("after ec_read_byte"); }
void h_ec_read_byte_from_end(void) { ec_dec *d; ec_read_byte_from_end(d); CANARY("after ec_read_byte_from_end"); }
void h_ec_dec_normalize(void)      { ec_dec *d; ec_dec_normalize(d); CANARY("after ec_dec_normalize"); }
void h_ec_dec_bit_logp(void)       { ec_dec *d; unsigned l; ec_dec_bit_logp(d, l); CANARY("after ec_dec_bit_logp"); }
void h_ec_dec_bits(void)           { ec_dec *d; unsigned b; ec_dec_bits(d, b); CANARY("after ec_dec_bits"); }
void h_ec_dec_init(void)           { ec_dec *d; unsigned char *b; opus_uint32 n; ec_dec_init(d, b, n); CANARY("after ec_dec_init"); }
void h_ec_dec_icdf(void)           { ec_dec *d; const unsigned char *t; unsigned b; verif_icdf_n = nondet_int(); ec_dec_icdf(d, t, b); CANARY("after ec_dec_icdf"); }
