_S = dict(tu='C19_softclip_b.c', dfcc=False, functions=['opus_pcm_soft_clip'], canary='real')
GROUPS = [
 dict(_S, cls='P', name='softclip_degenerate', entry='h_softclip_degenerate', unwind=2, timeout=300, defines=['-U__SSE__'],
      what='N < 1, C < 1 (any int) or null pointers: the function returns without touching anything (loop-free path, full domain)'),
]
for _n, _c in ((3, 1), (2, 2), (1, 3)):
    GROUPS.append(dict(_S, cls='B', name='softclip_passthrough_n%dc%d' % (_n, _c), entry='h_softclip_passthrough', unwind=_n + 3, timeout=1800, mem_gb=20,
        defines=['-U__SSE__', '-DVERIF_N=%d' % _n, '-DVERIF_C=%d' % _c], bounds='N=%d samples x C=%d channels, all floats symbolic in [-1,1]' % (_n, _c),
        what='in-range input with cleared memory passes through bit-exactly; memory stays cleared'))
for _n, _c in ((2, 1), (2, 2)):
    GROUPS.append(dict(_S, cls='B', name='softclip_safe_n%dc%d' % (_n, _c), entry='h_softclip_safe', unwind=_n + 3, timeout=3000, mem_gb=20,
        defines=['-U__SSE__', '-DVERIF_N=%d' % _n, '-DVERIF_C=%d' % _c], bounds='N=%d x C=%d, arbitrary non-NaN floats, memory in [-1,1]' % (_n, _c),
        what='memory safety and termination on arbitrary non-NaN input'))
for _n, _c, _tier in ((3, 2, 'thorough'), (4, 2, 'thorough'), (3, 3, 'thorough')):
    GROUPS.append(dict(_S, cls='B', name='softclip_independence_n%dc%d' % (_n, _c), entry='h_softclip_independence', unwind=_n * _c + 2, timeout=5400, mem_gb=24, tier=_tier,
        defines=['-U__SSE__', '-DVERIF_N=%d' % _n, '-DVERIF_C=%d' % _c], bounds='N=%d x C=%d, arbitrary finite floats, memory in [-1,1]' % (_n, _c),
        what='one interleaved call equals C mono calls with per-channel memory, bit for bit'))
for _n, _c, _q, _tier in ((3, 2, 1, 'quick'), (3, 2, 0, 'thorough'), (4, 2, 1, 'thorough'), (4, 2, 0, 'thorough'), (3, 3, 1, 'thorough')):
    GROUPS.append(dict(_S, cls='B', name='softclip_isolation_n%dc%dq%d' % (_n, _c, _q), entry='h_softclip_isolation', unwind=_n * _c + 2, timeout=3600, mem_gb=16, tier=_tier,
        cbmc_flags=['--object-bits', '10', '--slice-formula'],
        defines=['-U__SSE__', '-DVERIF_N=%d' % _n, '-DVERIF_C=%d' % _c, '-DVERIF_QUIET=%d' % _q], bounds='N=%d x C=%d, channel %d in [-1,1] with cleared memory, the other channels arbitrary finite floats with memory in [-1,1]' % (_n, _c, _q),
        what='a channel that needs no clipping is untouched whatever the other channels contain (channel isolation)'))
for _n, _c, _tier in ((3, 2, 'thorough'), (4, 2, 'thorough')):
    GROUPS.append(dict(_S, cls='B', name='softclip_sign_n%dc%d' % (_n, _c), entry='h_softclip_sign', unwind=_n * _c + 2, timeout=3600, mem_gb=16, tier=_tier,
        defines=['-U__SSE__', '-DVERIF_N=%d' % _n, '-DVERIF_C=%d' % _c], bounds='N=%d x C=%d, arbitrary finite floats, memory in [-1,1]' % (_n, _c),
        what='no sample changes sign (one run, ghost index)'))
GROUPS.append(dict(_S, cls='B', name='softclip_indep_witness', entry='h_softclip_indep_witness', unwind=10, timeout=1800, mem_gb=12, defines=['-U__SSE__'],
    bounds='4 samples x 2 channels; channel 1 fixed to a witness that takes the frame-start ramp path, channel 0 arbitrary in [-1,1]',
    what='independence of a clipped channel from the other channel, on a concrete witness'))
for _nm, _d in (('plc', ['-DVERIF_GAIN_PLC=1']), ('frame', [])):
    for (_ch, _fr) in ((2, 2), (1, 1)):
        GROUPS.append(dict(name='decode_gain_%s_c%df%d' % (_nm, _ch, _fr), cls='B', tu='C19_decode_gain.c', entry='h_decode_gain', dfcc=False, canary='real', expect_canaries=2,
            defines=['-DVERIF_FS=8000', '-U__SSE__', '-DVERIF_MAXLEN=3', '-DVERIF_FIXED_PCM=1', '-DVERIF_CH=%d' % _ch, '-DVERIF_FRAME=%d' % _fr] + _d, unwind=14,
            unwind_src=[(r'i<(st->)?frame_size\*st->(stream_)?channels', 82), (r'i<audiosize\*st->channels', 82), (r'i<st->channels\*F2_5', 42), (r'i<F2_5|i<overlap', 22)], timeout=1800, mem_gb=16,
            cex={'self': True}, functions=['opus_decode_frame'],
            trusted=['exp() of libm (stub: records its argument, returns an arbitrary positive value)', 'ASSUMED frame contracts (stubs) of celt_decode_with_ec(_dred), opus_custom_decoder_ctl as in C01_decode_frame.c'],
            bounds='Fs = 8000, MDCT-only frame of %g ms without mode transition, %d channel(s), %s, any gain -32768..32767' % (_fr * 2.5, _ch, 'lost frame' if _nm == 'plc' else 'payload of 2-3 symbolic bytes'),
            what='decoder gain block of opus_decode_frame: applied iff gain != 0, factor exp(ln2*6.48814081e-4*g), every sample scaled, nothing else changed'))
GROUPS.append(dict(name='decode_gain_plc_short_c2', cls='B', tu='C19_decode_gain.c', entry='h_decode_gain', dfcc=False, canary='real', expect_canaries=2,
    defines=['-DVERIF_FS=8000', '-U__SSE__', '-DVERIF_MAXLEN=3', '-DVERIF_FIXED_PCM=1', '-DVERIF_CH=2', '-DVERIF_FRAME=2', '-DVERIF_GAIN_PLC=1', '-DVERIF_SHORT_REQ=1'], unwind=14,
    unwind_src=[(r'i<(st->)?frame_size\*st->(stream_)?channels', 82), (r'i<audiosize\*st->channels', 82), (r'i<st->channels\*F2_5', 42), (r'i<F2_5|i<overlap', 22)], timeout=1800, mem_gb=16,
    cex={'self': True}, functions=['opus_decode_frame'],
    trusted=['exp() of libm (stub: records its argument, returns an arbitrary positive value)', 'ASSUMED frame contracts (stubs) of celt_decode_with_ec(_dred), opus_custom_decoder_ctl as in C01_decode_frame.c'],
    bounds='Fs = 8000, stereo, lost frame: a 2.5 ms concealment request after 5 ms MDCT-only frames into a buffer of exactly 2.5 ms, any gain',
    what='decoder gain block on a concealment request shorter than the remembered frame duration: every sample of the request scaled, nothing written beyond the exact-size buffer'))
for _ch in (1, 2):
    GROUPS.append(dict(name='decode_gain_transition_c%d' % _ch, cls='B', tier='quick' if _ch == 1 else 'thorough', tu='C19_decode_gain.c', entry='h_decode_gain_transition', dfcc=False, canary='real', expect_canaries=2,
        defines=['-DVERIF_FS=8000', '-U__SSE__', '-DVERIF_MAXLEN=3', '-DVERIF_FIXED_PCM=1', '-DVERIF_CH=%d' % _ch, '-DVERIF_TOCF=4', '-DVERIF_BUF=80', '-DVERIF_FRAME=4'], unwind=14,
        unwind_src=[(r'i<(st->)?frame_size\*st->(stream_)?channels', 82 * _ch), (r'i<audiosize\*st->channels', 82 * _ch), (r'i<st->channels\*F2_5', 42), (r'i<F2_5|i<overlap', 22)], timeout=1800, mem_gb=20, cbmc_flags=['--object-bits', '10', '--slice-formula'],
        cex={'self': True}, functions=['opus_decode_frame', 'smooth_fade'],
        trusted=['exp() of libm (stub: records its argument, returns an arbitrary positive value)', 'ASSUMED frame contracts (stubs) of silk_Decode, celt_decode_with_ec(_dred), opus_custom_decoder_ctl as in C01_decode_frame.c'],
        bounds='Fs = 8000, %d channel(s), a 10 ms SILK-only frame (2-3 symbolic payload bytes) after an MDCT-only frame, no redundancy, any gain' % _ch,
        what='decoder gain at a mode transition: the factor is computed once per decoded frame, also when concealment audio is cross-faded in'))

META = {'cex': {'self': True, 'timeout': 900}}

for _c in (1, 2):
  GROUPS.append(dict(name='softclip_frame_p_c%d' % _c, cls='P', tier='off', tu='C19_softclip_p.c', entry='h_softclip_p', canary='real', unwind=1, timeout=2400, mem_gb=40, defines=['-U__SSE__', '-DVERIF_C=%d' % _c], cbmc_flags=['--object-bits', '10'],
    functions=['opus_pcm_soft_clip'], assumptions=['N*C <= 2^26 (the API states no bound; the index arithmetic is int)'],
    what='soft clipper for any N and C, any float bit patterns: every access inside x[0..N*C) and declip_mem[0..C), no index overflow, every loop terminates (nine loop contracts)'))
