_S = dict(tu='C19_softclip_b.c', dfcc=False, functions=['opus_pcm_soft_clip'], canary='real')
GROUPS = [
 dict(_S, cls='P', name='softclip_degenerate', entry='h_softclip_degenerate', unwind=2, timeout=300, defines=['-U__SSE__'],
      what='N < 1, C < 1 (any int) or null pointers: the function returns without touching anything (loop-free path, full domain)'),
]
for _n, _c in ((3, 1), (2, 2), (1, 3)):
    GROUPS.append(dict(_S, cls='B', name='softclip_passthrough_n%dc%d' % (_n, _c), entry='h_softclip_passthrough', unwind=_n + 3, timeout=1800, mem_gb=20,
        defines=['-U__SSE__', '-DVERIF_N=%d' % _n, '-DVERIF_C=%d' % _c], bounds='N=%d samples x C=%d channels, all floats symbolic in [-1,1]' % (_n, _c),
        what='in-range input with cleared memory passes through bit-exactly; memory stays cleared'))
for _n, _c in ((2, 1), (2, 2)):
    GROUPS.append(dict(_S, cls='B', name='softclip_safe_n%dc%d' % (_n, _c), entry='h_softclip_safe', unwind=_n + 3, timeout=3000, mem_gb=20,
        defines=['-U__SSE__', '-DVERIF_N=%d' % _n, '-DVERIF_C=%d' % _c], bounds='N=%d x C=%d, arbitrary non-NaN floats, memory in [-1,1]' % (_n, _c),
        what='memory safety and termination on arbitrary non-NaN input'))
for _n, _c, _tier in ((3, 2, 'thorough'), (4, 2, 'thorough'), (3, 3, 'thorough')):
    GROUPS.append(dict(_S, cls='B', name='softclip_independence_n%dc%d' % (_n, _c), entry='h_softclip_independence', unwind=_n * _c + 2, timeout=5400, mem_gb=24, tier=_tier,
        defines=['-U__SSE__', '-DVERIF_N=%d' % _n, '-DVERIF_C=%d' % _c], bounds='N=%d x C=%d, arbitrary finite floats, memory in [-1,1]' % (_n, _c),
        what='one interleaved call equals C mono calls with per-channel memory, bit for bit'))
META = {'cex': {'self': True, 'timeout': 900}}
