_L = dict(cls='F', tu='C10_layout.c', dfcc=False, unwind=257, timeout=900)
GROUPS = [
 dict(_L, name='validate_layout', entry='h_validate_layout', functions=['validate_layout'], what='validate_layout accepts exactly the layouts whose entries are < streams+coupled or 255, with streams+coupled <= 255'),
 dict(_L, name='get_left_channel', entry='h_get_left_channel', functions=['get_left_channel'], what='least index after prev mapped to 2*stream'),
 dict(_L, name='get_right_channel', entry='h_get_right_channel', functions=['get_right_channel'], what='least index after prev mapped to 2*stream+1'),
 dict(_L, name='get_mono_channel', entry='h_get_mono_channel', functions=['get_mono_channel'], what='least index after prev mapped to stream+coupled'),
]
META = {}
