_L = dict(cls='P', tu='C10_layout.c', canary='real', unwind=1, timeout=900)
GROUPS = [
 dict(_L, name='validate_layout', entry='h_validate_layout', functions=['validate_layout'], what='validate_layout accepts exactly the layouts whose entries are < streams+coupled or 255, with streams+coupled <= 255'),
 dict(_L, name='get_left_channel', entry='h_get_left_channel', functions=['get_left_channel'], what='least index after prev mapped to 2*stream'),
 dict(_L, name='get_right_channel', entry='h_get_right_channel', functions=['get_right_channel'], what='least index after prev mapped to 2*stream+1'),
 dict(_L, name='get_mono_channel', entry='h_get_mono_channel', functions=['get_mono_channel'], what='least index after prev mapped to stream+coupled'),
]
META = {}
GROUPS.append(dict(cls='P', tu='C10_ms_validate_p.c', canary='real', unwind=1, timeout=1200, name='ms_packet_validate_p', entry='h_ms_validate_p', expect_canaries=2,
    functions=['opus_multistream_packet_validate', 'opus_packet_get_nb_samples', 'opus_packet_get_nb_frames', 'opus_packet_get_samples_per_frame'],
    trusted=['parser stub carrying the C06 clauses (count from TOC, consumed length within the packet, == len in standard framing)'],
    what='packet walk under its loop contract, any number of streams (1..255), any length: self-delimited framing for all but the last stream, equal durations, result = common duration <= 120 ms, the per-stream packets tile the input'))
_M = dict(tu='C10_ms_decoder.c', dfcc=False, canary='real', trusted=['parser stub carrying the C06 clauses (count from TOC, consumed length within the packet)', 'stub sizes/init of the single-stream decoder (C11)'])
GROUPS += [
 dict(_M, cls='B', name='ms_packet_validate', entry='h_ms_validate', unwind=5, timeout=1800, functions=['opus_multistream_packet_validate', 'opus_packet_get_nb_samples', 'opus_packet_get_nb_frames', 'opus_packet_get_samples_per_frame'],
      bounds='<= 3 streams (packet length and bytes unbounded / symbolic)', what='packet walk: self-delimited framing for all but the last stream, equal durations, result = common duration'),
 dict(_M, cls='B', name='ms_decoder_init', entry='h_ms_decoder_init', unwind=6, timeout=1800, expect_canaries=2, functions=['opus_multistream_decoder_get_size', 'opus_multistream_decoder_init', 'validate_layout'],
      bounds='<= 3 streams, <= 4 channels (stream counts otherwise any int)', what='get_size/init argument validation and per-stream state layout'),
]
GROUPS.append(dict(name='validate_encoder_layout', cls='B', tu='C10_enc_layout.c', entry='h_validate_encoder_layout', dfcc=False, canary='real', expect_canaries=2, unwind=7, timeout=1800,
    functions=['validate_encoder_layout', 'get_left_channel', 'get_right_channel', 'get_mono_channel'], bounds='<= 5 channels, <= 4 streams, mapping bytes symbolic',
    what='encoder layout validation accepts exactly the layouts whose streams all have their input channels'))
for (_c, _s, _cp, _n, _tier) in ((3, 2, 1, 2, 'quick'), (4, 3, 1, 2, 'thorough'), (2, 2, 0, 3, 'thorough'), (5, 3, 2, 2, 'thorough')):
    GROUPS.append(dict(name='ms_routing_c%ds%dp%dn%d' % (_c, _s, _cp, _n), cls='B', tu='C10_ms_routing.c', entry='h_ms_routing', dfcc=False, canary='real', expect_canaries=1, unwind=max(_c, _n, _s) * 2 + 3, timeout=1800, mem_gb=12, tier=_tier,
        defines=['-U__SSE__', '-DVERIF_C=%d' % _c, '-DVERIF_S=%d' % _s, '-DVERIF_CP=%d' % _cp, '-DVERIF_N=%d' % _n], cex={'self': True},
        functions=['opus_multistream_decode_native', 'opus_multistream_decode_float', 'opus_multistream_decode', 'opus_copy_channel_out_float', 'opus_copy_channel_out_short', 'get_left_channel', 'get_right_channel', 'get_mono_channel'],
        trusted=['stub of the per-stream opus_decode_native producing a known distinct sample per (stream, side, index); stub sizes of the single-stream decoder'],
        bounds='%d output channels, %d streams (%d coupled), %d samples per channel, any valid mapping (255 included), lost-packet call' % (_c, _s, _cp, _n),
        what='routing theorem of the multistream decoder: every output channel carries the mapped stream and side bit for bit, silence for 255, nothing else written'))

_NAMES = {2: 'foa', 3: 'soa', 4: 'toa', 5: 'fourthoa', 6: 'fifthoa'}
for _o in range(2, 7):
    _n = _o * _o + 2
    GROUPS.append(dict(name='proj_init_%s' % _NAMES[_o], cls='F', tu='C10_projection.c', entry='h_proj_init', dfcc=False, canary='real', expect_canaries=2, unwind=_n * _n + 2, timeout=2400, mem_gb=30,
        defines=['-DVERIF_OPO=%d' % _o], pregen=['tools/gen_projection.py'], tier='quick' if _o in (2, 3) else 'thorough',
        functions=['opus_projection_ambisonics_encoder_get_size', 'opus_projection_ambisonics_encoder_init', 'mapping_matrix_init', 'mapping_matrix_get_size', 'get_streams_from_channels', 'get_order_plus_one_from_channels'],
        trusted=['stub of opus_multistream_encoder_init / _get_size recording its arguments (the real ones are C11\'s)'],
        bounds='ambisonics order %d (%d or %d channels), every other argument symbolic' % (_o - 1, _o * _o, _n),
        what='projection encoder set-up: the stored mixing / demixing matrices are header and coefficients of this order\'s mixing / demixing tables, stream counts, identity mapping, state layout inside get_size()'))
    GROUPS.append(dict(name='proj_inverse_%s' % _NAMES[_o], cls='F', tu='C10_projection.c', entry='h_proj_inverse', dfcc=False, canary='real', expect_canaries=1, unwind=_n + 2, timeout=1800, mem_gb=16,
        defines=['-DVERIF_OPO=%d' % _o], pregen=['tools/gen_projection.py'], tier='quick' if _o in (2, 3) else 'thorough',
        functions=[], assumptions=['tolerance 2^-10 chosen by /verif (coefficients are Q15; the property states no number); the linear gain 10^(gain/5120) is generated from the demixing table header on every run'],
        bounds='order %d tables (%dx%d), every (row, column) pair symbolic' % (_o - 1, _n, _n),
        what='finite table lemma: gain x demixing x mixing = identity within 2^-10 over the real tables of this order'))
GROUPS.append(dict(name='proj_reject', cls='F', tu='C10_projection.c', entry='h_proj_reject', dfcc=False, canary='real', expect_canaries=1, unwind=40, timeout=900, pregen=['tools/gen_projection.py'],
    functions=['opus_projection_ambisonics_encoder_get_size', 'opus_projection_ambisonics_encoder_init', 'get_order_plus_one_from_channels'], bounds='every int channel count outside the ten legal ones',
    what='projection encoder set-up rejects every channel count that is not (n+1)^2 [+2], n = 1..5'))

GROUPS.append(dict(cls='P', tu='C10_ms_init_p.c', canary='real', unwind=1, timeout=1200, name='ms_decoder_init_p', entry='h_ms_decoder_init_p', expect_canaries=3, tier='thorough', assumptions=['opus_multistream_decoder_get_size is called with streams, coupled <= 255 (documented range): it does not check that limit itself and its int arithmetic overflows far beyond it'],
    functions=['opus_multistream_decoder_get_size', 'opus_multistream_decoder_init', 'validate_layout'],
    trusted=['stub sizes/init of the single-stream decoder (C11); the init stub asserts that every state it is handed lies inside get_size() bytes'],
    what='multistream decoder get_size/init for any stream and channel counts (loop contracts on the mapping copy and the two stream loops): illegal counts and layouts rejected, layout stored as given, one decoder per stream, coupled first, states back to back inside get_size()'))

for _fam, _unw, _nc in ((0, 17, 2), (1, 17, 2), (2, 257, 3), (255, 257, 1), (None, 17, 1)):  # family 2: 403 s of SAT, thorough tier
  GROUPS.append(dict(name='surround_layouts_' + ('other' if _fam is None else 'fam%d' % _fam), defines=([] if _fam is None else ['-DVERIF_FAMILY=%d' % _fam]), tier=('thorough' if _fam == 2 else 'quick'), cls='F', tu='C10_surround_layout.c', entry='h_surround_layout', dfcc=False, canary='real', expect_canaries=_nc, unwind=_unw, timeout=1200,
      replace_calls=['opus_multistream_encoder_init_impl:verif_init_impl'],
      functions=['opus_multistream_surround_encoder_init', 'opus_multistream_surround_encoder_get_size', 'opus_multistream_encoder_get_size', 'validate_ambisonics', 'isqrt32'],
      trusted=['recording stub of opus_multistream_encoder_init_impl (calls redirected; the real one is checked in ms_encoder_init*)', 'stub sizes of the single-stream encoder'],
      assumptions=['opus_multistream_surround_encoder_get_size is called with 1 <= channels <= 255 only (for family 255 it does not check the limit and its int arithmetic overflows far beyond it)'],
      bounds=('mapping family %d' % _fam if _fam is not None else 'every int mapping family other than 0, 1, 2, 255') + ', every int channel count (fill loops unwound to completion, unwinding assertions on)',
      what='surround / ambisonics / discrete encoder layouts for mapping families 0, 1, 2, 255 against RFC 7845 5.1.1 and RFC 8486 3.1: bijective mapping, left/right pairs coupled, LFE on its own last mono stream and flagged, ACN channels on mono streams in order with the non-diegetic pair coupled, unsupported combinations rejected, size query consistent'))

_EI = dict(cls='B', tu='C10_ms_enc_init.c', dfcc=False, canary='real', timeout=1500, mem_gb=12,
    trusted=['stub sizes / recording init / recording ctl of the single-stream encoder (the real ones: C11 enc_init groups)'])
for _est, _ech, _etier, _en in ((3, 4, 'quick', 'ms_encoder_init'), (4, 6, 'thorough', 'ms_encoder_init_s4c6')):
  GROUPS.append(dict(_EI, name=_en, tier=_etier, defines=['-DVERIF_ST=%d' % _est, '-DVERIF_CH=%d' % _ech], entry='h_ms_encoder_init', expect_canaries=3, unwind=_ech + 2,
      functions=['opus_multistream_encoder_get_size', 'opus_multistream_encoder_init', 'opus_multistream_encoder_init_impl', 'validate_layout', 'validate_encoder_layout', 'get_left_channel', 'get_right_channel', 'get_mono_channel'],
      bounds='<= %d streams, <= %d channels (counts otherwise any int), mapping bytes symbolic' % (_est, _ech),
      what='multistream encoder creation: illegal counts and invalid layouts (entry beyond the coded channels, stream or stream side without input channel) rejected before any stream is touched; otherwise one encoder per stream, coupled first, back to back inside get_size(), documented defaults, a failing stream initialiser reported'))
for _sch in range(1, 9):
  GROUPS.append(dict(_EI, name='ms_surround_init_fam1_c%d' % _sch, entry='h_ms_surround_init', expect_canaries=(2 if _sch >= 6 else 1), unwind=10, defines=['-DVERIF_SCH=%d' % _sch], tier=('quick' if _sch in (3, 6) else 'thorough'),
      functions=['opus_multistream_surround_encoder_get_size', 'opus_multistream_surround_encoder_init', 'opus_multistream_encoder_init_impl', 'validate_layout', 'validate_encoder_layout', 'ms_get_preemph_mem', 'ms_get_window_mem'],
      bounds='mapping family 1, %d channels (one group per channel count 1..8), rate and application symbolic' % _sch,
      what='surround creation with the real tables: every library-chosen layout passes the library\'s own validation, LFE flag on the last mono stream only, analysis memory inside the size the surround size query reports and cleared'))
