/* C10: projection (ambisonics, mapping family 3) encoder set-up: the real opus_projection_ambisonics_encoder_get_size /
 * _init of src/opus_projection_encoder.c and the real mapping_matrix_init / tables of src/mapping_matrix.c.
 * One group per ambisonics order (VERIF_OPO = order + 1 = 2..6): the channel count is either legal value of that order.
 * The multistream encoder is a stub that records what it is handed (its own set-up is C11's).
 *  (a) selection: the mixing and the demixing matrix stored in the encoder state are, header (rows, cols, gain) and every
 *      coefficient (ghost index), the tables of THAT order - mixing from the mixing table, demixing from the demixing table;
 *      stream counts (channels+1)/2 and channels/2; the multistream encoder gets the identity mapping and lies behind both
 *      matrices inside get_size() bytes;
 *  (b) inverse lemma over the real tables: demixing x mixing = I / 10^(gain/5120) within 2^-10 (entries are Q15), the gain
 *      being the one stated in the demixing table's header (linear value generated from the header on every run).
 * Illegal channel counts and other families are rejected. */
#include "config.h"
#include "common.h"
#include <stdlib.h>
#include "opus.h"
#include "opus_private.h"
#include "opus_multistream.h"
#include "projection_gen.h"
static int g_ms_calls, g_ms_ch, g_ms_streams, g_ms_coupled, g_ms_app, g_ms_mapK; static opus_int32 g_ms_Fs; static char *g_ms_ptr;
int verif_K;
#define VERIF_MS_SIZE(s, c) (64 + 16 * (c) + 8 * ((s) - (c)))      /* any positive size will do: only the layout arithmetic is of interest */
opus_int32 opus_multistream_encoder_get_size(int streams, int coupled_streams)
{ if (streams < 1 || coupled_streams > streams || coupled_streams < 0) return 0; return VERIF_MS_SIZE(streams, coupled_streams); }
int opus_multistream_encoder_init(OpusMSEncoder *st, opus_int32 Fs, int channels, int streams, int coupled_streams, const unsigned char *mapping, int application)
{
   g_ms_calls++; g_ms_ptr = (char *)st; g_ms_Fs = Fs; g_ms_ch = channels; g_ms_streams = streams; g_ms_coupled = coupled_streams; g_ms_app = application;
   g_ms_mapK = (0 <= verif_K && verif_K < channels) ? mapping[verif_K] : -1;
   return nondet_bool() ? OPUS_OK : OPUS_BAD_ARG;
}
#include "/repo/celt/mathops.c"     /* isqrt32 */
#include "/repo/src/mapping_matrix.c"
#include "/repo/src/opus_projection_encoder.c"
VERIF_DEFINE_CELT_FATAL

#ifndef VERIF_OPO
#define VERIF_OPO 3
#endif
#if VERIF_OPO == 2
#define MIXT mapping_matrix_foa_mixing
#define DEMT mapping_matrix_foa_demixing
#define MIXD mapping_matrix_foa_mixing_data
#define DEMD mapping_matrix_foa_demixing_data
#define GLIN VERIF_GLIN_foa_demixing
#elif VERIF_OPO == 3
#define MIXT mapping_matrix_soa_mixing
#define DEMT mapping_matrix_soa_demixing
#define MIXD mapping_matrix_soa_mixing_data
#define DEMD mapping_matrix_soa_demixing_data
#define GLIN VERIF_GLIN_soa_demixing
#elif VERIF_OPO == 4
#define MIXT mapping_matrix_toa_mixing
#define DEMT mapping_matrix_toa_demixing
#define MIXD mapping_matrix_toa_mixing_data
#define DEMD mapping_matrix_toa_demixing_data
#define GLIN VERIF_GLIN_toa_demixing
#elif VERIF_OPO == 5
#define MIXT mapping_matrix_fourthoa_mixing
#define DEMT mapping_matrix_fourthoa_demixing
#define MIXD mapping_matrix_fourthoa_mixing_data
#define DEMD mapping_matrix_fourthoa_demixing_data
#define GLIN VERIF_GLIN_fourthoa_demixing
#else
#define MIXT mapping_matrix_fifthoa_mixing
#define DEMT mapping_matrix_fifthoa_demixing
#define MIXD mapping_matrix_fifthoa_mixing_data
#define DEMD mapping_matrix_fifthoa_demixing_data
#define GLIN VERIF_GLIN_fifthoa_demixing
#endif
#define VAL8(x) ((((int)(x)) + 7) / 8 * 8)      /* align() of the LP64 build, as a constant expression */
#define NCH (VERIF_OPO * VERIF_OPO + 2)      /* dimension of the order's tables */

void h_proj_init(void)
{
   int channels = nondet_int(), family = nondet_int(), app = nondet_int(), streams = -7, coupled = -7, ret, size, k = nondet_int(); opus_int32 Fs = nondet_int();
   OpusProjectionEncoder *st; char *base; MappingMatrix *mm, *dm;
   __CPROVER_assume(channels == VERIF_OPO * VERIF_OPO || channels == VERIF_OPO * VERIF_OPO + 2);
   __CPROVER_assume(0 <= k && k < NCH * NCH);
   verif_K = nondet_int(); __CPROVER_assume(0 <= verif_K && verif_K < channels);
   size = opus_projection_ambisonics_encoder_get_size(channels, family);
   if (family != 3) {
      OpusProjectionEncoder dummy;
      __CPROVER_assert(size == 0, "get_size is 0 for a mapping family other than 3");
      ret = opus_projection_ambisonics_encoder_init(&dummy, Fs, channels, family, &streams, &coupled, app);
      __CPROVER_assert(ret == OPUS_BAD_ARG && g_ms_calls == 0, "init rejects other families without touching the state");
      CANARY("other family");
      return;
   }
   __CPROVER_assert(size == align(sizeof(OpusProjectionEncoder)) + 2 * (align(sizeof(MappingMatrix)) + align(NCH * NCH * 2)) + VERIF_MS_SIZE((channels + 1) / 2, channels / 2),
                    "get_size = header + the order's two matrices + the multistream encoder for (channels+1)/2 streams, channels/2 of them coupled");
   {  /* constant-size backing store (a symbolic-size object makes the encoding explode): the state must fit get_size() bytes of it */
      static long long store[(VAL8(sizeof(OpusProjectionEncoder)) + 2 * (VAL8(sizeof(MappingMatrix)) + VAL8(NCH * NCH * 2)) + VERIF_MS_SIZE((NCH + 1) / 2, NCH / 2) + 7) / 8];
      __CPROVER_assert(size <= (int)sizeof(store), "get_size() fits the backing store of the harness");
      base = (char *)store; st = (OpusProjectionEncoder *)base;
   }
   ret = opus_projection_ambisonics_encoder_init(st, Fs, channels, family, &streams, &coupled, app);
   __CPROVER_assert(g_ms_calls == 1, "a legal family-3 channel count reaches the multistream encoder set-up exactly once");
   __CPROVER_assert(streams == (channels + 1) / 2 && coupled == channels / 2, "reported streams = (channels+1)/2, coupled = channels/2");
   __CPROVER_assert(g_ms_Fs == Fs && g_ms_ch == channels && g_ms_streams == streams && g_ms_coupled == coupled && g_ms_app == app && g_ms_mapK == verif_K,
                    "the multistream encoder gets the same rate, channels, stream counts and application, with the identity mapping");
   mm = (MappingMatrix *)(base + align(sizeof(OpusProjectionEncoder)));
   dm = (MappingMatrix *)(base + align(sizeof(OpusProjectionEncoder)) + align(sizeof(MappingMatrix)) + align(NCH * NCH * 2));
   __CPROVER_assert(mm->rows == MIXT.rows && mm->cols == MIXT.cols && mm->gain == MIXT.gain && mm->rows == NCH && mm->cols == NCH,
                    "stored mixing matrix: rows, cols and gain of this order's mixing table");
   __CPROVER_assert(dm->rows == DEMT.rows && dm->cols == DEMT.cols && dm->gain == DEMT.gain && dm->rows == NCH && dm->cols == NCH,
                    "stored demixing matrix: rows, cols and gain of this order's demixing table");
   __CPROVER_assert(((opus_int16 *)((char *)mm + align(sizeof(MappingMatrix))))[k] == MIXD[k], "stored mixing matrix: every coefficient is the mixing table's");
   __CPROVER_assert(((opus_int16 *)((char *)dm + align(sizeof(MappingMatrix))))[k] == DEMD[k], "stored demixing matrix: every coefficient is the demixing table's");
   __CPROVER_assert(st->mixing_matrix_size_in_bytes == align(sizeof(MappingMatrix)) + align(NCH * NCH * 2) && st->demixing_matrix_size_in_bytes == st->mixing_matrix_size_in_bytes,
                    "stored matrix sizes are those get_size() accounts for");
   __CPROVER_assert(g_ms_ptr == base + align(sizeof(OpusProjectionEncoder)) + 2 * (align(sizeof(MappingMatrix)) + align(NCH * NCH * 2)) &&
                    g_ms_ptr - base + VERIF_MS_SIZE(streams, coupled) <= size, "the multistream encoder state lies behind both matrices, inside get_size() bytes");
   CANARY("after projection init");
}

/* channel counts that are not (n+1)^2 or (n+1)^2+2, or whose order has no table, are rejected */
void h_proj_reject(void)
{
   int channels = nondet_int(), streams = -7, coupled = -7, ret, size, legal; OpusProjectionEncoder dummy;
   legal = channels == 4 || channels == 6 || channels == 9 || channels == 11 || channels == 16 || channels == 18 || channels == 25 || channels == 27 || channels == 36 || channels == 38;
   __CPROVER_assume(!legal);
   size = opus_projection_ambisonics_encoder_get_size(channels, 3);
   __CPROVER_assert(size == 0, "get_size is 0 for a channel count that is not (n+1)^2 [+2] with n = 1..5");
   ret = opus_projection_ambisonics_encoder_init(&dummy, 48000, channels, 3, &streams, &coupled, OPUS_APPLICATION_AUDIO);
   __CPROVER_assert(ret == OPUS_BAD_ARG && g_ms_calls == 0, "init rejects it with OPUS_BAD_ARG before any state is written");
   CANARY("after projection reject");
}

/* demixing x mixing = I / G over the real tables; both are NCH x NCH, stored column-wise: X[r][c] = data[rows*c + r] */
void h_proj_inverse(void)
{
   int i = nondet_int(), j = nondet_int(), k; long long acc = 0; double v;
   __CPROVER_assume(0 <= i && i < NCH && 0 <= j && j < NCH);
   __CPROVER_assert(MIXT.rows == NCH && MIXT.cols == NCH && DEMT.rows == NCH && DEMT.cols == NCH, "table dimensions");
   for (k = 0; k < NCH; k++) acc += (long long)DEMD[NCH * k + i] * MIXD[NCH * j + k];
   v = (double)acc * GLIN / 1073741824.0 - (i == j ? 1.0 : 0.0);
   __CPROVER_assert(-0.0009765625 <= v && v <= 0.0009765625, "gain x demixing x mixing is the identity within 2^-10, for the gain stated in the demixing table");
   CANARY("after projection inverse");
}
