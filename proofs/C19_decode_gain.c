/* C19: "Setting a decoder gain of g (Q8 dB) multiplies the decoded signal by 10^(g/5120) and nothing else."
 * The gain block of the REAL opus_decode_frame (src/opus_decoder.c), reached through the whole function with the DSP callees
 * stubbed as in C01_decode_frame.c.  MDCT-only frames of 2.5 or 5 ms without mode transition (nothing else post-processes
 * the samples), any gain in the full int range the setter admits (-32768..32767), 1-2 channels.
 *   gain == 0: exp() is never called and every sample is bit-identical to what the MDCT layer produced;
 *   gain != 0: exp() is called exactly once, with ln(2) * 6.48814081e-4 * g  (= ln(10) * g / 5120 to float precision),
 *              and every sample equals (float)(sample * that factor); sample count and final range as without gain.
 * exp() itself is a trusted libm function (stub records its argument and returns an arbitrary positive finite value). */
#define VERIF_GAIN 1
#include <math.h>
static double g_exp_arg, g_exp_ret; static int g_exp_calls;
#if defined(VERIF_CH) && !defined(VERIF_TOCF)
#define VERIF_TOCF VERIF_FRAME                       /* shape parameters of the (unused here) decode_frame harness in the included TU */
#define VERIF_BUF (VERIF_FRAME * (VERIF_FS / 400))
#endif
#include "C01_decode_frame.c"
double exp(double x) { g_exp_calls++; g_exp_arg = x; return g_exp_ret; }
void h_decode_gain(void)
{
   dec_block *blk = malloc(sizeof(dec_block)); OpusDecoder *st; int len = nondet_int(), frame_size, ret, i, null_data = nondet_bool(), gain;
   unsigned char *data = NULL; opus_res *pcm, out; const int F2_5 = VERIF_FS / 400; double want;
   __CPROVER_assume(blk != NULL); st = &blk->d;
   __CPROVER_assume(DEC_OK(st) && st->Fs == VERIF_FS && st->decode_gain >= -32768 && st->decode_gain <= 32767);
   __CPROVER_assume(st->celt_dec_offset >= (int)sizeof(OpusDecoder) && st->celt_dec_offset < (int)sizeof(OpusDecoder) + 64);
   __CPROVER_assume(st->silk_dec_offset >= (int)sizeof(OpusDecoder) && st->silk_dec_offset < (int)sizeof(OpusDecoder) + 64);
   __CPROVER_assume(st->mode == MODE_CELT_ONLY && st->prev_mode == MODE_CELT_ONLY && st->prev_redundancy == 0);
   __CPROVER_assume(st->bandwidth >= OPUS_BANDWIDTH_NARROWBAND && st->bandwidth <= OPUS_BANDWIDTH_FULLBAND);
   __CPROVER_assume(st->frame_size == F2_5 || st->frame_size == 2 * F2_5);
#ifdef VERIF_GAIN_PLC
   __CPROVER_assume(null_data);          /* lost frame: concealment output gets the gain as well */
#else
   __CPROVER_assume(!null_data && len >= 2);
#endif
#ifdef VERIF_CH
   __CPROVER_assume(st->channels == VERIF_CH && st->frame_size == VERIF_FRAME * F2_5);   /* concrete shapes: every buffer size is a constant (symbolic sizes cost 25 M clauses) */
#endif
   frame_size = st->frame_size; gain = st->decode_gain;
#ifdef VERIF_SHORT_REQ
   /* a concealment request shorter than the last packet's frame (2.5 ms after 5 ms frames) into an exact-size buffer: the gain
      block must work on what THIS call produced, not on the remembered frame duration */
   frame_size = F2_5;
   { static opus_res short_store[VERIF_CH * (VERIF_FS / 400)]; pcm = short_store; }
#elif defined(VERIF_FIXED_PCM)
   { static opus_res pcm_store[2 * 2 * (VERIF_FS / 400)]; pcm = pcm_store; }    /* fixed capacity (memory safety of the glue is C01's subject) */
#else
   pcm = malloc((size_t)frame_size * st->channels * sizeof(opus_res)); __CPROVER_assume(pcm != NULL);
#endif
   __CPROVER_assume(0 <= len && len <= VERIF_MAXLEN);
   if (!null_data) { data = malloc(len > 0 ? len : 1); __CPROVER_assume(data != NULL); for (i = 0; i < VERIF_MAXLEN; i++) if (i < len) data[i] = nondet_uchar(); }
   verif_K = nondet_int(); __CPROVER_assume(0 <= verif_K && verif_K < frame_size * st->channels);
#ifdef VERIF_FIXED_PCM
   /* the static buffer is all zeros, and 0 * factor == 0 would hide a sample that is not scaled: the sample under observation is set to 0.5
      (a symbolic sample times a symbolic factor did not finish in 25 min; a constant power of two does) */
   pcm[verif_K] = 0.5f;
#endif
   g_exp_ret = nondet_double(); __CPROVER_assume(g_exp_ret > 0 && g_exp_ret < 1e6);
   g_exp_calls = 0; g_celt_calls = 0;
   ret = opus_decode_frame(st, data, len, pcm, frame_size, 0);
   if (ret > 0) {
      __CPROVER_assert(ret == frame_size && g_celt_calls == 1, "MDCT-only frame without transition: one call of the MDCT decoder, whole frame returned (with and without gain)");
      out = pcm[verif_K];
      if (gain == 0) {
         CANARY("gain 0");
         __CPROVER_assert(g_exp_calls == 0 && __CPROVER_equal(out, g_pre), "decoder gain 0: the decoded samples are passed through bit for bit");
      } else {
         CANARY("gain set");
         want = 0.6931471805599453094 * (double)(6.48814081e-4f * (float)gain);
         __CPROVER_assert(g_exp_calls == 1, "decoder gain g != 0 (positive or negative): the factor is computed exactly once");
         __CPROVER_assert(g_exp_arg == want, "the factor is exp(ln2 * 6.48814081e-4 * g) = 10^(g/5120)");
         __CPROVER_assert(__CPROVER_equal(out, (float)(g_pre * (float)g_exp_ret)), "every decoded sample is multiplied by the factor, and nothing else");
      }
   }
}

/* mode transition (previous frame MDCT-only, this one SILK-only, no redundancy frame): opus_decode_frame calls itself to get 5 ms of
   concealment audio and cross-fades it in.  The gain must still be applied to the output exactly once ("and nothing else"):
   the factor is computed once per decoded frame, i.e. the concealment audio is not scaled before it is mixed in. */
void h_decode_gain_transition(void)
{
   dec_block *blk = malloc(sizeof(dec_block)); OpusDecoder *st; int len = nondet_int(), frame_size, ret, i, gain;
   unsigned char *data; opus_res *pcm; const int F2_5 = VERIF_FS / 400;
   __CPROVER_assume(blk != NULL); st = &blk->d;
   __CPROVER_assume(DEC_OK(st) && st->Fs == VERIF_FS && st->decode_gain >= -32768 && st->decode_gain <= 32767);
   __CPROVER_assume(st->celt_dec_offset >= (int)sizeof(OpusDecoder) && st->celt_dec_offset < (int)sizeof(OpusDecoder) + 64);
   __CPROVER_assume(st->silk_dec_offset >= (int)sizeof(OpusDecoder) && st->silk_dec_offset < (int)sizeof(OpusDecoder) + 64);
   __CPROVER_assume(st->mode == MODE_SILK_ONLY && st->prev_mode == MODE_CELT_ONLY && st->prev_redundancy == 0 && st->bandwidth == OPUS_BANDWIDTH_NARROWBAND);
   __CPROVER_assume(st->channels == VERIF_CH && st->frame_size == 4 * F2_5);
   frame_size = st->frame_size; gain = st->decode_gain;
   { static opus_res pcm_store[4 * (VERIF_FS / 400) * VERIF_CH]; pcm = pcm_store; }
   __CPROVER_assume(2 <= len && len <= VERIF_MAXLEN);
   data = malloc(len); __CPROVER_assume(data != NULL); for (i = 0; i < VERIF_MAXLEN; i++) if (i < len) data[i] = nondet_uchar();
   g_exp_ret = nondet_double(); __CPROVER_assume(g_exp_ret > 0 && g_exp_ret < 1e6);
   g_exp_calls = 0; g_silk_calls = 0;
   ret = opus_decode_frame(st, data, len, pcm, frame_size, 0);
   if (ret > 0) {
      __CPROVER_assert(ret == frame_size, "the transition frame has the duration its TOC announced (with and without gain)");
      if (gain == 0) { CANARY("transition, gain 0"); __CPROVER_assert(g_exp_calls == 0, "decoder gain 0: no factor is computed"); }
      else { CANARY("transition, gain set"); __CPROVER_assert(g_exp_calls == 1, "mode transition with a decoder gain: the factor is computed and applied once per decoded frame (the cross-faded concealment audio is not scaled on its own)"); }
   }
}
