/* C18: silk_NLSF_decode (+ silk_NLSF_unpack, silk_NLSF_residual_dequant, silk_NLSF_stabilize), real code and
 * the real codebook tables: for every first-stage index below nVectors and every residual index the
 * bitstream can carry, table reads are in bounds, the weight is non-zero, nothing overflows and the decoded
 * NLSF vector is strictly ordered with the codebook's minimum spacing. */
#include "config.h"
#include "silk_contracts.h"
#include "/repo/silk/NLSF_decode.c"
#include "/repo/silk/NLSF_unpack.c"
#include "/repo/silk/NLSF_stabilize.c"
#include "/repo/silk/sort.c"
#include "/repo/silk/tables_NLSF_CB_WB.c"
#include "/repo/silk/tables_NLSF_CB_NB_MB.c"
VERIF_DEFINE_CELT_FATAL
#ifndef VERIF_CB
#define VERIF_CB silk_NLSF_CB_WB
#endif
void h_nlsf_decode(void)
{
   const silk_NLSF_CB_struct *cb = &VERIF_CB;
   opus_int16 nlsf[MAX_LPC_ORDER]; opus_int8 idx[MAX_LPC_ORDER + 1]; int L = cb->order; int k;
   for (k = 0; k <= MAX_LPC_ORDER; k++) idx[k] = (opus_int8)nondet_int();
   __CPROVER_assume(0 <= idx[0] && idx[0] < cb->nVectors);
   for (k = 1; k <= MAX_LPC_ORDER; k++) __CPROVER_assume(-NLSF_QUANT_MAX_AMPLITUDE_EXT <= idx[k] && idx[k] <= NLSF_QUANT_MAX_AMPLITUDE_EXT);
   k = nondet_int(); __CPROVER_assume(1 <= k && k < L);
   silk_NLSF_decode(nlsf, idx, cb);
   __CPROVER_assert(nlsf[0] >= cb->deltaMin_Q15[0] && nlsf[0] > 0, "decoded NLSF[0] > 0 with minimum spacing");
   __CPROVER_assert(nlsf[k] - nlsf[k-1] >= cb->deltaMin_Q15[k] && nlsf[k] > nlsf[k-1], "decoded NLSFs strictly increasing with minimum spacing");
   __CPROVER_assert(nlsf[L-1] <= 32768 - cb->deltaMin_Q15[L] && nlsf[L-1] < 32768, "decoded NLSF[L-1] < 1.0 with minimum spacing");
   CANARY("after NLSF_decode");
}
