/* C11: TOC synthesis (gen_toc, static in src/opus_encoder.c) against the TOC readers (src/opus.c, src/opus_decoder.c),
 * and frame_size_select.  gen_toc's only loop runs at most 5 times (frame rate >= 16): finite-complete. */
#include "config.h"
#include "common.h"
#include "/repo/src/opus.c"
#include "/repo/src/opus_decoder.c"
#include "/repo/src/opus_encoder.c"
VERIF_DEFINE_CELT_FATAL

void h_gen_toc(void)
{
   int mode = nondet_int(), bw = nondet_int(), ch = nondet_int(), fsz = nondet_int(); opus_int32 Fs = nondet_int();
   unsigned char toc; int framerate;
   __CPROVER_assume(Fs == 8000 || Fs == 12000 || Fs == 16000 || Fs == 24000 || Fs == 48000);
   __CPROVER_assume(ch == 1 || ch == 2);
   __CPROVER_assume(mode == MODE_SILK_ONLY || mode == MODE_HYBRID || mode == MODE_CELT_ONLY);
   /* frame sizes each layer can code (RFC 6716 table 2) */
   if (mode == MODE_SILK_ONLY) __CPROVER_assume((fsz == Fs/100 || fsz == Fs/50 || fsz == Fs/25 || fsz == 3*Fs/50) && bw >= OPUS_BANDWIDTH_NARROWBAND && bw <= OPUS_BANDWIDTH_WIDEBAND);
   if (mode == MODE_HYBRID) __CPROVER_assume((fsz == Fs/100 || fsz == Fs/50) && (bw == OPUS_BANDWIDTH_SUPERWIDEBAND || bw == OPUS_BANDWIDTH_FULLBAND));
   if (mode == MODE_CELT_ONLY) __CPROVER_assume((fsz == Fs/400 || fsz == Fs/200 || fsz == Fs/100 || fsz == Fs/50) && bw >= OPUS_BANDWIDTH_NARROWBAND && bw <= OPUS_BANDWIDTH_FULLBAND);
   framerate = Fs / fsz;                        /* as computed in opus_encode_native */
   toc = gen_toc(mode, framerate, bw, ch);
   __CPROVER_assert(opus_packet_get_mode(&toc) == mode, "TOC announces the mode that was coded");
   __CPROVER_assert(opus_packet_get_samples_per_frame(&toc, Fs) == fsz, "TOC announces the requested frame duration");
   __CPROVER_assert(opus_packet_get_nb_channels(&toc) == ch, "TOC announces the coded channel count");
   __CPROVER_assert(opus_packet_get_bandwidth(&toc) == ((mode == MODE_CELT_ONLY && bw == OPUS_BANDWIDTH_MEDIUMBAND) ? OPUS_BANDWIDTH_NARROWBAND : bw),
                    "TOC announces the coded bandwidth (the MDCT layer has no medium band)");
   __CPROVER_assert((toc & 3) == 0, "gen_toc leaves the frame-count code at 0");
   CANARY("after gen_toc");
}

void h_frame_size_select(void)
{
   opus_int32 fs = nondet_int(), Fs = nondet_int(), r; int vd = nondet_int();
   __CPROVER_assume(Fs == 8000 || Fs == 12000 || Fs == 16000 || Fs == 24000 || Fs == 48000);
   __CPROVER_assume(fs >= 0 && fs <= 2 * 48000);
   r = frame_size_select(fs, vd, Fs);
   __CPROVER_assert(r == -1 || (r > 0 && r <= fs), "result is -1 or a positive size not larger than what was supplied");
   __CPROVER_assert(r > 0 ==> (400*r == Fs || 200*r == Fs || 100*r == Fs || 50*r == Fs || 25*r == Fs || 50*r == 3*Fs || 50*r == 4*Fs || 50*r == 5*Fs || 50*r == 6*Fs),
                    "an accepted size is a legal Opus duration (2.5, 5, 10, 20, 40, 60, 80, 100 or 120 ms)");
   __CPROVER_assert((r > 0 && vd == OPUS_FRAMESIZE_ARG) ==> r == fs, "OPUS_FRAMESIZE_ARG uses the supplied size");
   __CPROVER_assert((r > 0 && vd >= OPUS_FRAMESIZE_2_5_MS && vd <= OPUS_FRAMESIZE_40_MS) ==> r == (Fs / 400) << (vd - OPUS_FRAMESIZE_2_5_MS), "fixed durations 2.5-40 ms");
   __CPROVER_assert((r > 0 && vd >= OPUS_FRAMESIZE_60_MS && vd <= OPUS_FRAMESIZE_120_MS) ==> r == (vd - OPUS_FRAMESIZE_60_MS + 3) * Fs / 50, "fixed durations 60-120 ms");
   __CPROVER_assert((vd != OPUS_FRAMESIZE_ARG && (vd < OPUS_FRAMESIZE_2_5_MS || vd > OPUS_FRAMESIZE_120_MS)) ==> r == -1, "an undefined duration request is refused");
   CANARY("after frame_size_select");
}
