/* C13: the three encoder entry points hand the SAME frame to the shared native encoder.  Real wrappers
 * (src/opus_encoder.c) with their conversion loops under loop contracts; opus_encode_native is replaced by a
 * RECORDING contract (it only captures what it was called with; what it does with it is not this property). */
#include "config.h"
#include "common.h"
#include <stdlib.h>
/* ghost record of the call to the native encoder */
int verif_K;                      /* arbitrary sample index (chosen by the harness) */
unsigned verif_seen_bits; int verif_seen_valid;
int verif_n_frame, verif_n_lsb, verif_n_float_api, verif_n_c1, verif_n_c2, verif_n_ach; const void *verif_n_apcm; int verif_n_asize; int verif_n_max;
void *verif_n_downmix; const void *verif_n_pcm;

#undef  OPUS_VERIF_LOOP_enc16_convert
#define OPUS_VERIF_LOOP_enc16_convert \
  __CPROVER_assigns(i, __CPROVER_object_whole(in)) \
  __CPROVER_loop_invariant(0 <= i && i <= frame_size * st->channels) \
  __CPROVER_loop_invariant((0 <= verif_K && verif_K < i) ==> __CPROVER_equal(in[verif_K], (opus_res)INT16TORES(pcm[verif_K]))) \
  __CPROVER_decreases(frame_size * st->channels - i)
#undef  OPUS_VERIF_LOOP_enc24_convert
#define OPUS_VERIF_LOOP_enc24_convert \
  __CPROVER_assigns(i, __CPROVER_object_whole(in)) \
  __CPROVER_loop_invariant(0 <= i && i <= frame_size * st->channels) \
  __CPROVER_loop_invariant((0 <= verif_K && verif_K < i) ==> __CPROVER_equal(in[verif_K], (opus_res)INT24TORES(pcm[verif_K]))) \
  __CPROVER_decreases(frame_size * st->channels - i)

#include "/repo/src/opus_encoder.c"
VERIF_DEFINE_CELT_FATAL
#define BITS(f) (*(const unsigned *)&(f))

opus_int32 opus_encode_native(OpusEncoder *st, const opus_res *pcm, int frame_size, unsigned char *data, opus_int32 out_data_bytes, int lsb_depth,
                const void *analysis_pcm, opus_int32 analysis_size, int c1, int c2, int analysis_channels, downmix_func downmix, int float_api)
__CPROVER_requires(frame_size <= 0 || __CPROVER_r_ok(pcm, (size_t)frame_size * st->channels * sizeof(opus_res)))
__CPROVER_assigns(verif_seen_bits, verif_seen_valid, verif_n_frame, verif_n_lsb, verif_n_float_api, verif_n_c1, verif_n_c2, verif_n_ach, verif_n_apcm, verif_n_asize, verif_n_max, verif_n_downmix, verif_n_pcm)
__CPROVER_ensures(verif_n_frame == frame_size && verif_n_lsb == lsb_depth && verif_n_float_api == float_api && verif_n_c1 == c1 && verif_n_c2 == c2 &&
                  verif_n_ach == analysis_channels && verif_n_apcm == analysis_pcm && verif_n_asize == analysis_size && verif_n_max == out_data_bytes &&
                  verif_n_downmix == (void *)downmix && verif_n_pcm == (const void *)pcm)
__CPROVER_ensures(verif_seen_valid == (frame_size > 0 && 0 <= verif_K && verif_K < frame_size * st->channels))
__CPROVER_ensures(verif_seen_valid ==> verif_seen_bits == BITS(pcm[verif_K]))
;

#define SETUP_ENC \
   OpusEncoder *st = malloc(sizeof(OpusEncoder)); int afs = nondet_int(), fs; opus_int32 maxb = nondet_int(), ret; unsigned char *data; \
   __CPROVER_assume(st != NULL); \
   __CPROVER_assume((st->channels == 1 || st->channels == 2) && (st->Fs == 8000 || st->Fs == 12000 || st->Fs == 16000 || st->Fs == 24000 || st->Fs == 48000)); \
   __CPROVER_assume(0 <= afs && afs <= 2 * 48000); \
   fs = frame_size_select(afs, st->variable_duration, st->Fs); \
   data = malloc(8); __CPROVER_assume(data != NULL); \
   verif_K = nondet_int(); __CPROVER_assume(0 <= verif_K); verif_seen_valid = 0; verif_n_frame = -12345;

void h_opus_encode(void)
{
   SETUP_ENC
   opus_int16 *pcm = malloc((size_t)(fs > 0 ? fs : 1) * st->channels * sizeof(opus_int16)); __CPROVER_assume(pcm != NULL);
   ret = opus_encode(st, pcm, afs, data, maxb);
   if (fs <= 0) { __CPROVER_assert(ret == OPUS_BAD_ARG && verif_n_frame == -12345, "opus_encode: an illegal frame size is refused before the native encoder is reached"); CANARY("bad size"); return; }
   CANARY("native reached");
   __CPROVER_assert(verif_n_frame == fs && verif_n_lsb == 16 && verif_n_max == maxb && verif_n_float_api == 1, "opus_encode: native encoder gets the selected frame size, 16-bit depth, the caller's byte budget");
   __CPROVER_assert(verif_n_apcm == pcm && verif_n_asize == afs && verif_n_c1 == 0 && verif_n_c2 == -2 && verif_n_ach == st->channels && verif_n_downmix == (void *)downmix_int, "opus_encode: analysis sees the caller's 16-bit samples through downmix_int");
   if (verif_K < fs * st->channels) { opus_res e = INT16TORES(pcm[verif_K]); __CPROVER_assert(verif_seen_valid && verif_seen_bits == BITS(e), "opus_encode: sample K reaches the native encoder as INT16TORES(pcm[K])"); }
}

void h_opus_encode24(void)
{
   SETUP_ENC
   opus_int32 *pcm = malloc((size_t)(fs > 0 ? fs : 1) * st->channels * sizeof(opus_int32)); __CPROVER_assume(pcm != NULL);
   ret = opus_encode24(st, pcm, afs, data, maxb);
   if (fs <= 0) { __CPROVER_assert(ret == OPUS_BAD_ARG && verif_n_frame == -12345, "opus_encode24: an illegal frame size is refused before the native encoder is reached"); CANARY("bad size"); return; }
   CANARY("native reached");
   __CPROVER_assert(verif_n_frame == fs && verif_n_lsb == MAX_ENCODING_DEPTH && verif_n_max == maxb && verif_n_float_api == 1, "opus_encode24: native encoder gets the selected frame size, 24-bit depth (clamped to the LSB_DEPTH setting inside), the caller's byte budget");
   __CPROVER_assert(verif_n_apcm == pcm && verif_n_asize == afs && verif_n_c1 == 0 && verif_n_c2 == -2 && verif_n_ach == st->channels && verif_n_downmix == (void *)downmix_int24, "opus_encode24: analysis sees the caller's 24-bit samples through downmix_int24");
   if (verif_K < fs * st->channels) { opus_res e = INT24TORES(pcm[verif_K]); __CPROVER_assert(verif_seen_valid && verif_seen_bits == BITS(e), "opus_encode24: sample K reaches the native encoder as INT24TORES(pcm[K])"); }
}

void h_opus_encode_float(void)
{
   SETUP_ENC
   float *pcm = malloc((size_t)(fs > 0 ? fs : 1) * st->channels * sizeof(float)); __CPROVER_assume(pcm != NULL);
   ret = opus_encode_float(st, pcm, afs, data, maxb);
   CANARY("native reached");
   __CPROVER_assert(verif_n_frame == fs && verif_n_lsb == MAX_ENCODING_DEPTH && verif_n_max == maxb && verif_n_float_api == 1, "opus_encode_float: native encoder gets the selected frame size");
   __CPROVER_assert(verif_n_pcm == pcm && verif_n_apcm == pcm && verif_n_asize == afs && verif_n_downmix == (void *)downmix_float, "opus_encode_float: the caller's samples are passed through unchanged");
}

/* The three analysis down-mix functions (real bodies) are views of one function: on matched input (16-bit v, 24-bit 256*v,
 * float v/32768) they produce bit-identical samples for every channel selection (c1; c2 = a second channel, -1 = none,
 * -2 = all channels).  Bounded in the frame shape (VERIF_DM_N samples x VERIF_DM_C channels), samples/selection symbolic. */
#ifndef VERIF_DM_N
#define VERIF_DM_N 2
#endif
#ifndef VERIF_DM_C
#define VERIF_DM_C 3
#endif
void h_downmix_views(void)
{
   opus_int16 s16[(VERIF_DM_N + 1) * VERIF_DM_C]; opus_int32 s24[(VERIF_DM_N + 1) * VERIF_DM_C]; float sf[(VERIF_DM_N + 1) * VERIF_DM_C];
   opus_val32 y16[VERIF_DM_N], y24[VERIF_DM_N], yf[VERIF_DM_N]; int i, k = nondet_int(), offset = nondet_int(), c1 = nondet_int(), c2 = nondet_int(), n = nondet_int();
   for (i = 0; i < (VERIF_DM_N + 1) * VERIF_DM_C; i++) { s16[i] = nondet_short(); s24[i] = 256 * (opus_int32)s16[i]; sf[i] = (float)s16[i] * (1.f / 32768.f); }
   __CPROVER_assume(0 <= offset && offset <= 1 && 1 <= n && n <= VERIF_DM_N && 0 <= c1 && c1 < VERIF_DM_C && -2 <= c2 && c2 < VERIF_DM_C && 0 <= k && k < n);
   CANARY_SET(c1, 0); CANARY_SET(c2, -1); CANARY_SET(n, 1); CANARY_SET(offset, 0); CANARY_SET(k, 0);     /* concrete witness for the reachability run */
   downmix_int(s16, y16, n, offset, c1, c2, VERIF_DM_C);
   downmix_int24(s24, y24, n, offset, c1, c2, VERIF_DM_C);
   downmix_float(sf, yf, n, offset, c1, c2, VERIF_DM_C);
   __CPROVER_assert(BITS(y16[k]) == BITS(y24[k]), "downmix_int24 on 256*v equals downmix_int on v, bit for bit, for every channel selection");
   __CPROVER_assert(BITS(y16[k]) == BITS(yf[k]), "downmix_float on v/32768 equals downmix_int on v, bit for bit, for every channel selection");
   CANARY("after downmix views");
}
