GROUPS = []
for cb, nm in (('silk_NLSF_CB_WB', 'wb'), ('silk_NLSF_CB_NB_MB', 'nbmb')):
    GROUPS.append(dict(name='nlsf_table_' + nm, cls='F', tu='C18_nlsf_stab.c', entry='h_nlsf_table', dfcc=False, unwind=18,
         defines=['-DVERIF_CB=' + cb], functions=[], what='deltaMin table of %s: entries >= 1, sum <= 32768' % cb, timeout=120))
    GROUPS.append(dict(name='nlsf_stabilize_' + nm, cls='P', tu='C18_nlsf_stab.c', entry='h_nlsf_stabilize', unwind=18,
         defines=['-DVERIF_CB=' + cb], functions=['silk_NLSF_stabilize', 'silk_insertion_sort_increasing_all_values_int16'], canary='real',
         what='silk_NLSF_stabilize on every int16[%s.order] input: ordered output with minimum spacing; outer loop by contract (havoc), inner loops unwound 18' % cb,
         timeout=600))
META = {'cex': {'self': True, 'timeout': 1200, 'unwind': 22}}
for cb, nm in (('silk_NLSF_CB_WB', 'wb'), ('silk_NLSF_CB_NB_MB', 'nbmb')):
    GROUPS.append(dict(name='nlsf_decode_' + nm, cls='P', tu='C18_nlsf_decode.c', entry='h_nlsf_decode', unwind=18, canary='real',
         defines=['-DVERIF_CB=' + cb], functions=['silk_NLSF_decode', 'silk_NLSF_unpack', 'silk_NLSF_residual_dequant', 'silk_NLSF_stabilize'],
         what='silk_NLSF_decode with the real %s tables: every CB1 index < nVectors, every residual index in [-10,10]' % cb, timeout=900))
GROUPS.append(dict(name='gains_dequant', cls='F', tu='C18_gains_pitch.c', entry='h_gains_dequant', dfcc=False, unwind=6,
     functions=['silk_gains_dequant', 'silk_log2lin'], what='silk_gains_dequant: all index vectors the bitstream can carry, both conditional modes, 2/4 sub-frames', timeout=300))
GROUPS.append(dict(name='gains_quant_dequant', cls='F', tu='C18_gains_pitch.c', entry='h_gains_quant_dequant', dfcc=False, unwind=6,
     functions=['silk_gains_quant', 'silk_gains_dequant', 'silk_lin2log', 'silk_log2lin'], what='quantise then dequantise: identical gains and state for every positive gain vector', timeout=600))
GROUPS.append(dict(name='decode_pitch', cls='F', tu='C18_gains_pitch.c', entry='h_decode_pitch', dfcc=False, unwind=6,
     functions=['silk_decode_pitch'], what='silk_decode_pitch: every lag index, contour index inside the selected codebook, Fs 8/12/16 kHz, 2/4 sub-frames', timeout=300))
