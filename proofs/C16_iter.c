/* C16: opus_extension_iterator_next (real body, recursive) - contract enforced with --enforce-contract-rec, the three loops
 * under loop contracts, skip_extension / skip_extension_payload replaced by their (separately enforced) contracts.
 * Any padding bytes, any length, any iterator state satisfying the representation invariant RI_IT.
 * The hardening assertion "we skipped this extension earlier, so it should not fail now" (src_len >= 0) is content
 * dependent (it says the repeat region re-parses): here celt_fatal is a non-returning call without obligation; that
 * assertion is an obligation only in the bounded round-trip groups.  The other two assertions (cursor arithmetic) follow
 * from RI_IT and are obligations here. */
#include "config.h"
#include "ext_contracts.h"
#include "/repo/src/extensions.c"
/* "assertion failed: iter->src_len >= 0": the text after "assertion failed: iter->" (offset 24) starts with "src" for the
   content-dependent assertion only; every other hardening assertion of the file is an obligation */
void celt_fatal(const char *str, const char *file, int line)
{
   (void)file; (void)line;
   if (!(str[24] == 's' && str[25] == 'r' && str[26] == 'c'))
      __CPROVER_assert(0, "celt_assert: no internal abort (cursor arithmetic assertions of the iterator)");
   __CPROVER_assume(0);
}
void h_iter_next(void) { OpusExtensionIterator *it; opus_extension_data *e; verif_xn = nondet_int(); opus_extension_iterator_next(it, e); CANARY("after iterator_next"); }
