# C09 (partial): the PLC / FEC duration and argument rules live in opus_decode_native and opus_decode_frame; the proof
# units are the same as C01's (same TUs, same harness assertions: the C09 clauses are the assertions labelled PLC / FEC /
# concealment).  They are re-run here so that C09's evidence is produced by its own check.
import copy
from proofs import reg_C01
GROUPS = [copy.deepcopy(g) for g in reg_C01.GROUPS if not g['name'].startswith(('has_lbrr', 'proj_matrix'))]
for g in GROUPS:
    g.pop('prop', None)
META = dict(reg_C01.META)
