/* C20 / C11 / C05: the REAL opus_encode_frame_native (src/opus_encoder.c, static), the "frame coder" that
 * C11_encode_native.c replaces by an assumed contract.  Here the other half of that assume-guarantee pair is discharged,
 * with the DSP layers (silk_Encode, celt_encode_with_ec, the filters and fades) replaced by stubs with assumed frame
 * contracts and arbitrary results, so the statements hold for every signal:
 *   - no user setting is written (the frame contract C11_encode_native.c assumes), the state invariant is kept;
 *   - result is a documented error or 1..max_data_bytes; with VBR off it is exactly max_data_bytes unless the packet is a
 *     DTX packet (1 byte);  everything written stays inside data[0..max_data_bytes);
 *   - the TOC byte announces exactly the coded duration, the decided channel count and a bandwidth not above the decided one;
 *   - DTX (C20): the no-activity counter advances by exactly the frame duration (Q1 ms) when DTX is evaluated, is cleared when
 *     it is not, a 1-byte DTX packet is returned exactly when decide_dtx_mode says so (its own contract: C20 groups), and
 *     with DTX disabled no 1-byte packet is produced by this function's own logic.
 * Range coder functions are the real ones (celt/entenc.c); a stubbed layer leaves the coder in any state satisfying RI_ENC. */
#include "config.h"
#include "common.h"
#include <stdarg.h>
#include <stdlib.h>
static unsigned char *g_data; static int g_max;
/* sample buffers (encoder state, scratch arrays) hold unconstrained nondeterministic floats throughout and no obligation reads
   them: only copies into the packet buffer are modelled as havoc (see libc_frame.h) */
#define VERIF_MEM_HAVOC_ONLY(dst) __CPROVER_same_object(dst, g_data)
#include "libc_frame.h"
#include "/repo/celt/entcode.c"
#include "/repo/celt/entenc.c"
#include "/repo/silk/lin2log.c"
#include "/repo/silk/log2lin.c"
/* scratch arrays (pcm_buf, tmp_prefill): fixed capacity instead of variable-length arrays (CBMC's encoding of symbolic-size
   arrays does not scale); the requested size is asserted to fit, the stubs check their extents against the capacity */
#include "stack_alloc.h"
#undef ALLOC
#define VERIF_VLA_CAP ((VERIF_FS / 250 + VERIF_FRAME * (VERIF_FS / 400)) * 2)
#define ALLOC(var, size, type) type var[VERIF_VLA_CAP]; __CPROVER_assert((long)(size) >= 0 && (long)(size) <= VERIF_VLA_CAP, "scratch array request fits the fixed capacity of this harness")
#include "/repo/src/opus_encoder.c"
#include "opus_parse.h"
#include "entcode_ri.h"
#include "encoder_inv.h"
VERIF_DEFINE_CELT_FATAL

static float verif_window[120];
static OpusCustomMode verif_mode;
static int g_silk_calls, g_celt_calls, g_silk_nbytes0, g_pad_calls, g_pad_newlen = -1;

static void havoc_enc(ec_enc *e)
{  /* a coding layer used the range coder: any state satisfying the representation invariant, same buffer */
   ec_enc n; n.buf = e->buf; n.storage = e->storage; n.end_offs = e->end_offs; n.end_window = e->end_window; n.nend_bits = e->nend_bits;
   __CPROVER_assume(RI_ENC(&n) && n.offs >= e->offs && n.nbits_total >= e->nbits_total && n.ext <= VERIF_MAXBYTES + 1 && n.nbits_total < (1 << 24)); *e = n; }      /* ext counts buffered 0xFF bytes: at most the bytes coded so far */

int celt_encoder_ctl(CELTEncoder *OPUS_RESTRICT st, int request, ...)
{
   va_list ap; (void)st; va_start(ap, request);
   if (request == CELT_GET_MODE_REQUEST) { const CELTMode **m = va_arg(ap, const CELTMode **); verif_mode.window = verif_window; verif_mode.overlap = 120; *m = &verif_mode; }
   else if (request == OPUS_GET_FINAL_RANGE_REQUEST) { opus_uint32 *v = va_arg(ap, opus_uint32 *); *v = nondet_uint(); }
   va_end(ap); return OPUS_OK;
}
opus_int silk_Encode(void *encState, silk_EncControlStruct *c, const opus_res *samplesIn, opus_int nSamplesIn, ec_enc *enc, opus_int32 *nBytesOut, const opus_int prefillFlag, int activity)
{
   (void)encState; (void)samplesIn; (void)activity;
   g_silk_calls++;
   __CPROVER_assert(c->nChannelsAPI >= 1 && c->nChannelsAPI <= 2 && c->nChannelsInternal >= 1 && c->nChannelsInternal <= c->nChannelsAPI || prefillFlag, "silk_Encode: channel counts");
   __CPROVER_assert(prefillFlag || c->payloadSize_ms == 10 || c->payloadSize_ms == 20 || c->payloadSize_ms == 40 || c->payloadSize_ms == 60, "silk_Encode: payload size is 10/20/40/60 ms");
   __CPROVER_assert(prefillFlag || (c->desiredInternalSampleRate >= 8000 && c->desiredInternalSampleRate <= 16000 && c->minInternalSampleRate <= c->maxInternalSampleRate), "silk_Encode: internal rate request");
   __CPROVER_assert(nSamplesIn >= 0, "silk_Encode: sample count");
   if (nondet_bool()) return nondet_int() | 1;
   if (enc != NULL) { havoc_enc(enc); *nBytesOut = nondet_int(); __CPROVER_assume(*nBytesOut >= 0 && *nBytesOut <= 1275 && (*nBytesOut > 0 || c->useDTX)); if (*nBytesOut == 0) g_silk_nbytes0 = 1; }
   c->internalSampleRate = nondet_int(); __CPROVER_assume(c->internalSampleRate == 8000 || c->internalSampleRate == 12000 || c->internalSampleRate == 16000);
   __CPROVER_assume(prefillFlag || (c->internalSampleRate >= c->minInternalSampleRate && c->internalSampleRate <= c->maxInternalSampleRate));
   c->allowBandwidthSwitch = nondet_int() & 1; c->inWBmodeWithoutVariableLP = nondet_int() & 1; c->switchReady = nondet_int() & 1;
   c->stereoWidth_Q14 = nondet_int(); __CPROVER_assume(c->stereoWidth_Q14 >= 0 && c->stereoWidth_Q14 <= 16384);
   c->signalType = nondet_int() & 3; c->offset = nondet_int() & 1;
   return 0;
}
int celt_encode_with_ec(OpusCustomEncoder *OPUS_RESTRICT st, const opus_res *pcm, int frame_size, unsigned char *compressed, int nbCompressedBytes, ec_enc *enc)
{
   int r = nondet_int(); (void)st; (void)pcm;
   g_celt_calls++;
   __CPROVER_assert(frame_size > 0 && nbCompressedBytes >= 0, "celt_encode: sizes");
   if (compressed != NULL) { __CPROVER_assert(nbCompressedBytes == 0 || __CPROVER_w_ok(compressed, nbCompressedBytes), "celt_encode: output buffer is writable for the size it is told");
      __CPROVER_assert(!__CPROVER_same_object(compressed, g_data) || (long)__CPROVER_POINTER_OFFSET(compressed) + nbCompressedBytes <= g_max, "celt_encode: redundancy frame lies inside the packet buffer"); }
   if (enc != NULL) { __CPROVER_assert((opus_uint32)nbCompressedBytes <= enc->storage, "celt_encode: byte budget within the range coder's buffer"); havoc_enc(enc); }
   __CPROVER_assume(r >= -7 && r <= nbCompressedBytes && r != 0);
   return r;
}
int opus_packet_pad(unsigned char *data, opus_int32 len, opus_int32 new_len)
{ g_pad_calls++; g_pad_newlen = new_len; __CPROVER_assert(len >= 1 && new_len >= len && data == g_data && new_len <= g_max, "opus_packet_pad: pads the packet inside the caller's buffer"); return nondet_int() & 1 ? OPUS_OK : OPUS_BAD_ARG; }
/* in-file signal processing helpers (calls redirected with goto-instrument --replace-calls): buffers checked, content arbitrary */
static void verif_hp_cutoff(const opus_res *in, opus_int32 cutoff_Hz, opus_res *out, opus_val32 *hp_mem, int len, int channels, opus_int32 Fs, int arch)
{ (void)in; (void)cutoff_Hz; (void)hp_mem; (void)Fs; (void)arch; __CPROVER_assert(__CPROVER_w_ok(out, (size_t)len * channels * sizeof(opus_res)), "hp_cutoff: output inside pcm_buf"); }
static void verif_dc_reject(const opus_res *in, opus_int32 cutoff_Hz, opus_res *out, opus_val32 *hp_mem, int len, int channels, opus_int32 Fs)
{ (void)in; (void)cutoff_Hz; (void)hp_mem; (void)Fs; __CPROVER_assert(__CPROVER_w_ok(out, (size_t)len * channels * sizeof(opus_res)), "dc_reject: output inside pcm_buf"); }
static void verif_gain_fade(const opus_res *in, opus_res *out, opus_val16 g1, opus_val16 g2, int overlap48, int frame_size, int channels, const celt_coef *window, opus_int32 Fs)
{ (void)in; (void)g1; (void)g2; (void)overlap48; (void)window; (void)Fs; __CPROVER_assert(__CPROVER_w_ok(out, (size_t)frame_size * channels * sizeof(opus_res)), "gain_fade: output buffer"); }
static void verif_stereo_fade(const opus_res *in, opus_res *out, opus_val16 g1, opus_val16 g2, int overlap48, int frame_size, int channels, const celt_coef *window, opus_int32 Fs)
{ (void)in; (void)g1; (void)g2; (void)overlap48; (void)window; (void)Fs; __CPROVER_assert(__CPROVER_w_ok(out, (size_t)frame_size * channels * sizeof(opus_res)), "stereo_fade: output buffer"); }
static opus_val32 verif_inner_prod(const opus_val16 *x, const opus_val16 *y, int N) { (void)x; (void)y; (void)N; return nondet_float(); }
static opus_val32 verif_compute_frame_energy(const opus_res *pcm, int frame_size, int channels, int arch)
{ opus_val32 e = nondet_float(); (void)pcm; (void)frame_size; (void)channels; (void)arch; __CPROVER_assume(e >= 0 && e <= 1e30f); return e; }
void *verif_keep[] = { (void *)verif_hp_cutoff, (void *)verif_dc_reject, (void *)verif_gain_fade, (void *)verif_stereo_fade, (void *)verif_inner_prod, (void *)verif_compute_frame_energy };

#ifndef VERIF_MAXBYTES
#define VERIF_MAXBYTES 10
#endif
/* the encoder block: OpusEncoder followed by the sub-states; the only SILK field this function reads sits at offset 8 */
typedef struct { OpusEncoder e; silk_encoder silk; char celt[64]; } enc_block;
void h_frame_coder(void)
{
   enc_block blk; OpusEncoder *st = &blk.e, old; static opus_res pcm[VERIF_FRAME * (VERIF_FS / 400) * VERIF_CH]; unsigned char *data; AnalysisInfo info;
   int frame_size = nondet_int(), max_data_bytes = nondet_int(), float_api = nondet_int() & 1, first_frame = nondet_int() & 1, is_silence = nondet_int() & 1;
   int redundancy = nondet_int() & 1, celt_to_silk = nondet_int() & 1, prefill = nondet_int() & 1, to_celt = nondet_int() & 1, f_q1, c0, evaluated; opus_int32 equiv_rate = nondet_int(), ret;
   __CPROVER_assume(st->Fs == VERIF_FS && settings_ok(st) && stream_ok(st));
   __CPROVER_assume(st->silk_enc_offset == (int)((char *)&blk.silk - (char *)&blk) && st->celt_enc_offset == (int)((char *)blk.celt - (char *)&blk));
   __CPROVER_assume(st->channels == VERIF_CH && frame_size == VERIF_FRAME * (VERIF_FS / 400) && max_data_bytes == VERIF_MAXBYTES);     /* concrete shape per group */
   __CPROVER_assume(FRAME_CODER_PRE(st, frame_size, max_data_bytes));
   __CPROVER_assume(equiv_rate >= 0 && equiv_rate <= 5000000 && st->energy_masking == NULL);
   __CPROVER_assume(0 <= st->nb_no_activity_ms_Q1 && st->nb_no_activity_ms_Q1 <= 1200);       /* C20 decide_dtx_mode contract: counter range is inductive */
   __CPROVER_assume(st->hybrid_stereo_width_Q14 >= 0 && st->hybrid_stereo_width_Q14 <= 16384);
   /* smoothed high-pass cut-off frequencies on a log scale (Q15 of log2(Hz) << 8 domain): both lie in [0, 2^24); the update is a convex combination */
   __CPROVER_assume(st->variable_HP_smth2_Q15 >= 0 && st->variable_HP_smth2_Q15 < (1 << 24));
   __CPROVER_assume(blk.silk.state_Fxx[0].sCmn.variable_HP_smth1_Q15 >= 0 && blk.silk.state_Fxx[0].sCmn.variable_HP_smth1_Q15 < (1 << 24));
   __CPROVER_assume(info.valid == 0 || info.valid == 1);
   /* redundancy / prefill flags as opus_encode_native derives them (only with a previous frame of another layer) */
   __CPROVER_assume(!prefill || st->mode != MODE_CELT_ONLY);
   data = malloc(max_data_bytes); __CPROVER_assume(data != NULL); g_data = data; g_max = max_data_bytes;
   /* old: an arbitrary second state that agrees with st on the settings and on the decided fields (no 18 kB copy) */
   __CPROVER_assume(user_settings_eq(st, &old) && old.stream_channels == st->stream_channels && old.mode == st->mode && old.bandwidth == st->bandwidth);
   c0 = st->nb_no_activity_ms_Q1;
   f_q1 = (int)((long long)frame_size * 2000 / VERIF_FS);          /* specification: frame duration in Q1 milliseconds (5 for 2.5 ms) */
   evaluated = st->use_dtx && (info.valid || is_silence);
   g_silk_calls = g_celt_calls = g_silk_nbytes0 = g_pad_calls = 0;

   ret = opus_encode_frame_native(st, pcm, frame_size, data, max_data_bytes, float_api, first_frame, &info, is_silence, redundancy, celt_to_silk, prefill, equiv_rate, to_celt);

   __CPROVER_assert(user_settings_eq(st, &old), "the frame coder writes no user setting (frame contract assumed by C11_encode_native.c)");
   __CPROVER_assert(settings_ok(st), "the frame coder keeps the settings part of the state invariant");
   __CPROVER_assert(st->variable_HP_smth2_Q15 >= 0 && st->variable_HP_smth2_Q15 < (1 << 24), "the smoothed cut-off stays in its range");
   __CPROVER_assert(ret == OPUS_INTERNAL_ERROR || ret == OPUS_BUFFER_TOO_SMALL || (ret >= 1 && ret <= max_data_bytes), "result is a documented error or 1..max_data_bytes");
   if (ret >= 1) {
      int dtx_packet = (ret == 1);
      CANARY("packet produced");
      __CPROVER_assert(st->stream_channels == old.stream_channels && st->mode == old.mode, "the decided channel count and mode are what is coded");
      /* the one exit that leaves st->first alone is the speech layer's own DTX (zero bytes from silk_Encode), which cannot be the first frame of a stream */
      if (!g_silk_nbytes0) __CPROVER_assert(st->first == 0, "a coded frame ends the before-the-first-frame state (st->first cleared: the effect C11_encode_native.c assumes of its frame coder stub; from then on OPUS_SET_APPLICATION is refused)");
      __CPROVER_assert(RFC_DUR400(data[0]) * (VERIF_FS / 400) == frame_size, "the TOC byte announces exactly the coded duration");
      __CPROVER_assert(((data[0] >> 2) & 1) == (old.stream_channels == 2), "the TOC byte carries the decided channel count");
      __CPROVER_assert((data[0] & 3) == 0, "the frame coder emits a single-frame (code 0) packet");
      __CPROVER_assert((RFC_CFG(data[0]) >= 16) == (old.mode == MODE_CELT_ONLY) && (RFC_CFG(data[0]) >= 12 && RFC_CFG(data[0]) < 16) == (old.mode == MODE_HYBRID), "the TOC byte carries the decided mode");
      {  /* RFC 6716 table 2: bandwidth of the configuration */
         int cfg = RFC_CFG(data[0]), bw = cfg < 12 ? OPUS_BANDWIDTH_NARROWBAND + (cfg >> 2) : cfg < 16 ? OPUS_BANDWIDTH_SUPERWIDEBAND + ((cfg - 12) >> 1) :
                  ((cfg - 16) >> 2) == 0 ? OPUS_BANDWIDTH_NARROWBAND : OPUS_BANDWIDTH_MEDIUMBAND + ((cfg - 16) >> 2);
         __CPROVER_assert(bw <= old.bandwidth, "the coded bandwidth never exceeds the decided one (the speech layer may lower it)");
      }
      if (!old.use_vbr && !dtx_packet) __CPROVER_assert(ret == max_data_bytes, "VBR off: a packet that is not a DTX packet has exactly the CBR size it was given");
      /* C20 */
      if (!old.use_dtx) __CPROVER_assert(!dtx_packet || g_silk_nbytes0 || max_data_bytes == 1 || (g_pad_calls == 0 && ret == 1 && old.use_vbr), "DTX disabled: a 1-byte packet only if the speech layer produced nothing or one byte is all there is");
#if VERIF_MAXBYTES > 2
#define CANARY_DTX CANARY("DTX packet")
#else
#define CANARY_DTX
#endif
      if (dtx_packet && !g_silk_nbytes0 && evaluated && max_data_bytes > 2) { CANARY_DTX; __CPROVER_assert(st->nb_no_activity_ms_Q1 > 400 && st->nb_no_activity_ms_Q1 == c0 + f_q1, "a DTX packet is returned only when the counter, advanced by exactly the frame duration, is past the 200 ms mark"); }
   }
   if (ret >= 1 && !g_silk_nbytes0) {
      if (evaluated) __CPROVER_assert(st->nb_no_activity_ms_Q1 == 0 || st->nb_no_activity_ms_Q1 == c0 + f_q1 || (st->nb_no_activity_ms_Q1 == 400 && c0 + f_q1 > 1200),
                                      "DTX evaluated: the no-activity counter is cleared, advanced by exactly the frame duration in Q1 ms, or wrapped to the 200 ms mark after the 400 ms run limit");
      else __CPROVER_assert(st->nb_no_activity_ms_Q1 == 0, "DTX not evaluated (disabled, or no activity analysis and not digital silence): the counter is cleared");
      if (evaluated && is_silence) __CPROVER_assert(st->nb_no_activity_ms_Q1 != 0, "digital silence always counts as inactivity");
      __CPROVER_assert(st->nb_no_activity_ms_Q1 >= 0 && st->nb_no_activity_ms_Q1 <= 1200, "counter range is kept");
   }
}

/* C20 "the in-DTX query is true on every DTX packet": which detector answers OPUS_GET_IN_DTX.  DTX packets come from the speech
   layer's own detector whenever it is switched on and the last frame used the speech layer (SILK-only or hybrid), and from the
   generalised detector (decide_dtx_mode, C20 groups above: "DTX packet => counter past the 200 ms mark") otherwise; the query has to
   consult the detector that is in charge.  Real opus_encoder_ctl, symbolic encoder and SILK state; loop-free. */
void h_get_in_dtx(void)
{
   enc_block blk; OpusEncoder *st = &blk.e; opus_int32 v = nondet_int(); int ret, silk_says, s0, s1;
   __CPROVER_assume(st->silk_enc_offset == (int)((char *)&blk.silk - (char *)&blk) && st->celt_enc_offset == (int)((char *)blk.celt - (char *)&blk));
   __CPROVER_assume(st->silk_mode.nChannelsInternal == 1 || st->silk_mode.nChannelsInternal == 2);
   s0 = blk.silk.state_Fxx[0].sCmn.noSpeechCounter >= NB_SPEECH_FRAMES_BEFORE_DTX; s1 = blk.silk.state_Fxx[1].sCmn.noSpeechCounter >= NB_SPEECH_FRAMES_BEFORE_DTX;
   silk_says = s0 && ((st->silk_mode.nChannelsInternal == 2 && blk.silk.prev_decode_only_middle == 0) ? s1 : 1);
   ret = opus_encoder_ctl(st, OPUS_GET_IN_DTX_REQUEST, &v);
   __CPROVER_assert(ret == OPUS_OK, "OPUS_GET_IN_DTX succeeds");
   if (st->silk_mode.useDTX && (st->prev_mode == MODE_SILK_ONLY || st->prev_mode == MODE_HYBRID)) {
      CANARY("speech-layer detector in charge");
      __CPROVER_assert(v == silk_says, "speech layer's DTX on and last frame SILK-only or hybrid: the query reports the speech layer's detector (both channels when both are coded)");
   } else if (st->use_dtx) {
      CANARY("generalised detector in charge");
      __CPROVER_assert(v == (st->nb_no_activity_ms_Q1 >= 400), "generalised DTX: the query is true exactly when the no-activity counter is at or past the 200 ms mark");
   } else __CPROVER_assert(v == 0, "DTX disabled: the query is false");
   __CPROVER_assert(opus_encoder_ctl(st, OPUS_GET_IN_DTX_REQUEST, (opus_int32 *)NULL) == OPUS_BAD_ARG, "null pointer rejected");
}
