/* C18: silk_NLSF_stabilize — for EVERY int16[L] input and both real deltaMin tables the output is
 * ordered with at least the codebook's minimum spacing.  Outer loop (20 iterations) under a loop
 * contract; inner loops (<= 16) pre-unwound. */
#include "config.h"
#include "common.h"
#include "silk_contracts.h"
#include "/repo/silk/NLSF_stabilize.c"
#include "/repo/silk/sort.c"
#include "/repo/silk/tables_NLSF_CB_WB.c"
#include "/repo/silk/tables_NLSF_CB_NB_MB.c"
VERIF_DEFINE_CELT_FATAL

#ifndef VERIF_CB
#define VERIF_CB silk_NLSF_CB_WB
#endif

/* table pre-lemma: every minimum spacing >= 1 and they fit together in [0, 32768] */
void h_nlsf_table(void)
{
   const silk_NLSF_CB_struct *cb = &VERIF_CB; int k, sum = 0;
   __CPROVER_assert(cb->order == 10 || cb->order == 16, "codebook order is 10 or 16");
   for (k = 0; k <= cb->order; k++) {
      __CPROVER_assert(cb->deltaMin_Q15[k] >= 1, "deltaMin >= 1");
      sum += cb->deltaMin_Q15[k];
   }
   __CPROVER_assert(sum <= 32768, "sum of minimum spacings fits in [0,32768]");
   CANARY("after table lemma");
}

void h_nlsf_stabilize(void)
{
   const silk_NLSF_CB_struct *cb = &VERIF_CB;
   opus_int16 nlsf[16]; int L = cb->order; int k;
   for (k = 0; k < 16; k++) nlsf[k] = nondet_short();
   k = nondet_int(); __CPROVER_assume(1 <= k && k < L);   /* arbitrary interior index */
   silk_NLSF_stabilize(nlsf, cb->deltaMin_Q15, L);
   __CPROVER_assert(nlsf[0] >= cb->deltaMin_Q15[0], "first NLSF at least deltaMin[0] above 0");
   __CPROVER_assert(nlsf[k] - nlsf[k-1] >= cb->deltaMin_Q15[k], "adjacent NLSFs at least deltaMin[k] apart (hence strictly ordered)");
   __CPROVER_assert(nlsf[L-1] <= 32768 - cb->deltaMin_Q15[L], "last NLSF at least deltaMin[L] below 1.0");
   CANARY("after stabilize");
}
