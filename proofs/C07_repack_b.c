/* C07 (class B): repacketizer / pad / unpad on the REAL src/repacketizer.c + src/opus.c + src/extensions.c,
 * plain CBMC (byte-precise memmove), every byte symbolic inside the stated bounds. */
#include "config.h"
#include "common.h"
#include "/repo/src/opus.c"
#include "/repo/src/extensions.c"
#include "/repo/src/opus_decoder.c"   /* opus_packet_get_nb_frames */
#undef st
#include "/repo/src/repacketizer.c"
#include <stdlib.h>
VERIF_DEFINE_CELT_FATAL
/* sub-decoders are never reached from here */
#ifndef VERIF_PLEN
#define VERIF_PLEN 5          /* bytes per input packet */
#endif
#ifndef VERIF_MAXF
#define VERIF_MAXF 2          /* frames per input packet */
#endif
#define SMALL_COUNT(d, len) (((d)[0] & 3) != 3 || ((len) >= 2 && ((d)[1] & 0x3F) <= VERIF_MAXF && !((d)[1] & 0x40)))

#ifndef VERIF_L1
#define VERIF_L1 3
#endif
#ifndef VERIF_L2
#define VERIF_L2 3
#endif
/* packets of concrete length (exact-size heap objects, every byte symbolic) */
static unsigned char *sym_packet(int *plen, int len)
{
   int i; unsigned char *p;
   p = malloc(len); __CPROVER_assume(p != NULL);
   for (i = 0; i < len; i++) p[i] = nondet_uchar();
   __CPROVER_assume(SMALL_COUNT(p, len));
   *plen = len; return p;
}

/* cat p1, cat p2, out_range(all) -> parse: exactly the frames of p1 then p2, byte for byte, original config bits */
void h_repack_two(void)
{
   OpusRepacketizer rp; int l1, l2, r1, r2, n1, n2, k, j, outn, ret; unsigned char *p1, *p2, *out; opus_int32 maxlen, olen;
   unsigned char t1, t2, to; const unsigned char *f1[48], *f2[48], *fo[48]; opus_int16 s1[48], s2[48], so[48];
   p1 = sym_packet(&l1, VERIF_L1); p2 = sym_packet(&l2, VERIF_L2);
   opus_repacketizer_init(&rp);
   r1 = opus_repacketizer_cat(&rp, p1, l1);
   n1 = opus_packet_parse(p1, l1, &t1, f1, s1, NULL);
   __CPROVER_assert((r1 == OPUS_OK) == (n1 > 0), "an empty repacketizer accepts a packet exactly when it is valid (<= 120 ms is implied)");
   if (r1 != OPUS_OK) { __CPROVER_assert(opus_repacketizer_get_nb_frames(&rp) == 0, "rejected packet leaves the repacketizer empty"); return; }
   __CPROVER_assert(opus_repacketizer_get_nb_frames(&rp) == n1, "frame count after the first packet");
   r2 = opus_repacketizer_cat(&rp, p2, l2);
   n2 = opus_packet_parse(p2, l2, &t2, f2, s2, NULL);
   {  int compat = n2 > 0 && ((t1 ^ t2) & 0xFC) == 0 && (n1 + n2) * opus_packet_get_samples_per_frame(p1, 8000) <= 960;
      __CPROVER_assert((r2 == OPUS_OK) == compat, "second packet accepted exactly when valid, configuration-compatible and the total stays <= 120 ms");
      if (r2 != OPUS_OK) { __CPROVER_assert(opus_repacketizer_get_nb_frames(&rp) == n1, "rejection leaves the contents unchanged"); n2 = 0; }
   }
   outn = n1 + n2;
   maxlen = nondet_int(); __CPROVER_assume(0 <= maxlen && maxlen <= VERIF_L1 + VERIF_L2 + 4);
   out = malloc(maxlen > 0 ? maxlen : 1); __CPROVER_assume(out != NULL);
   olen = opus_repacketizer_out(&rp, out, maxlen);
   __CPROVER_assert(olen == OPUS_BUFFER_TOO_SMALL || (1 <= olen && olen <= maxlen), "output never exceeds maxlen; otherwise refused cleanly");
   __CPROVER_assert(maxlen < VERIF_L1 + VERIF_L2 + 3 || olen > 0, "a buffer of the input sizes plus header always suffices");
   if (olen <= 0) return;
   CANARY("emitted");
   ret = opus_packet_parse(out, olen, &to, fo, so, NULL);
   __CPROVER_assert(ret == outn, "the emitted packet is valid and holds exactly the selected frames");
   __CPROVER_assert((to & 0xFC) == (t1 & 0xFC), "original configuration bits");
   k = nondet_int(); __CPROVER_assume(0 <= k && k < outn);
   {  const unsigned char *src = k < n1 ? f1[k] : f2[k - n1]; int sl = k < n1 ? s1[k] : s2[k - n1];
      __CPROVER_assert(so[k] == sl, "frame k has its original size, in order");
      for (j = 0; j < VERIF_PLEN; j++) if (j < sl) __CPROVER_assert(fo[k][j] == src[j], "frame k is preserved byte for byte");
   }
}

/* pad to new_len: exactly new_len bytes, same frames; unpad: canonical, idempotent; pad then unpad == unpad */
void h_pad_unpad(void)
{
   int l1, n1, n2, k, j, r; unsigned char *p1, *buf; opus_int32 newlen, ul, ul2;
   unsigned char t1, t2; const unsigned char *f1[48], *f2[48]; opus_int16 s1[48], s2[48];
   p1 = sym_packet(&l1, VERIF_L1);
   newlen = nondet_int(); __CPROVER_assume(l1 <= newlen && newlen <= VERIF_L1 + 3);
   buf = malloc(newlen); __CPROVER_assume(buf != NULL);
   for (j = 0; j < VERIF_L1; j++) buf[j] = p1[j];
   n1 = opus_packet_parse(p1, l1, &t1, f1, s1, NULL);
   r = opus_packet_pad(buf, l1, newlen);
   __CPROVER_assert(r == OPUS_OK || r == OPUS_INVALID_PACKET, "pad returns OK or INVALID_PACKET for new_len >= len");
   __CPROVER_assert((r == OPUS_OK) == (n1 > 0), "every valid packet can be padded to any larger length");
   if (r != OPUS_OK) return;
   CANARY("padded");
   n2 = opus_packet_parse(buf, newlen, &t2, f2, s2, NULL);
   __CPROVER_assert(n2 == n1 && t2 == t1 || (n2 == n1 && (t2 & 0xFC) == (t1 & 0xFC)), "padded packet of exactly new_len bytes parses to the same number of frames and configuration");
   k = nondet_int(); __CPROVER_assume(0 <= k && k < n1);
   __CPROVER_assert(s2[k] == s1[k], "padding keeps frame sizes");
   for (j = 0; j < VERIF_PLEN; j++) if (j < s1[k]) __CPROVER_assert(f2[k][j] == f1[k][j], "padding keeps frame bytes");
   ul = opus_packet_unpad(buf, newlen);
   __CPROVER_assert(0 < ul && ul <= newlen, "unpad returns a length in (0, len]");
   n2 = opus_packet_parse(buf, ul, &t2, f2, s2, NULL);
   __CPROVER_assert(n2 == n1 && s2[k] == s1[k], "unpadded packet still holds the same frames");
   ul2 = opus_packet_unpad(buf, ul);
   __CPROVER_assert(ul2 == ul, "unpad is idempotent (canonical form)");
}
