/* Common definitions for proof translation units (CBMC side). */
#ifndef VERIF_COMMON_H
#define VERIF_COMMON_H
#ifdef VERIF_NATIVE
#include "native_rt.h"
#define PO(p) 0
#define OS(p) 0
#else
#include <stddef.h>
#include <stdint.h>
#include <limits.h>

#ifdef VERIF_CEX_SEARCH
/* counterexample search build: every nondeterministic choice is logged in call order so that the
   verifier's trace can be replayed natively (native_rt.h feeds the same values back in the same order) */
long long verif_nd[1024]; int verif_nd_n;
#define VERIF_ND_LOG(v) do { if (verif_nd_n < 1024) verif_nd[verif_nd_n++] = (long long)(v); } while (0)
int nondet_int_raw(void); unsigned nondet_uint_raw(void); unsigned char nondet_uchar_raw(void); short nondet_short_raw(void);
long long nondet_ll_raw(void); float nondet_float_raw(void); _Bool nondet_bool_raw(void); size_t nondet_size_t_raw(void);
static int nondet_int(void) { int v = nondet_int_raw(); VERIF_ND_LOG(v); return v; }
static unsigned nondet_uint(void) { unsigned v = nondet_uint_raw(); VERIF_ND_LOG(v); return v; }
static unsigned char nondet_uchar(void) { unsigned char v = nondet_uchar_raw(); VERIF_ND_LOG(v); return v; }
static short nondet_short(void) { short v = nondet_short_raw(); VERIF_ND_LOG(v); return v; }
static long long nondet_ll(void) { long long v = nondet_ll_raw(); VERIF_ND_LOG(v); return v; }
static _Bool nondet_bool(void) { _Bool v = nondet_bool_raw(); VERIF_ND_LOG(v); return v; }
static size_t nondet_size_t(void) { size_t v = nondet_size_t_raw(); VERIF_ND_LOG(v); return v; }
static float nondet_float(void) { union { float f; unsigned u; } c; c.f = nondet_float_raw(); VERIF_ND_LOG(c.u); return c.f; }
#else
int nondet_int(void);
unsigned nondet_uint(void);
unsigned char nondet_uchar(void);
short nondet_short(void);
long long nondet_ll(void);
float nondet_float(void);
_Bool nondet_bool(void);
size_t nondet_size_t(void);
#endif
void *nondet_ptr(void);

/* A canary is an assertion that MUST be refuted: it shows that the code after the
   call under proof is reachable, i.e. that requires/assume are not contradictory. */
/* Finding a model for a canary is a SAT search through the whole function and costs far more
   than the (UNSAT) proof itself, so each group is built twice: the proof build has no canaries;
   the canary build (VERIF_CANARY_RUN) may add harness assumptions that shrink the input
   (reachability under stronger assumptions implies reachability under the proof's). */
#ifdef VERIF_CANARY_RUN
#define CANARY(name) __CPROVER_assert(0, "CANARY " name)
#define CANARY_ASSUME(c) __CPROVER_assume(c)
#define CANARY_SET(lhs, val) ((lhs) = (val))      /* concrete witness input: constant-propagated by symex, unlike an assumption */
#else
#define CANARY(name)
#define CANARY_ASSUME(c)
#define CANARY_SET(lhs, val) ((void)0)
#endif

#define PO(p) ((long long)__CPROVER_POINTER_OFFSET(p))
#define OS(p) ((long long)__CPROVER_OBJECT_SIZE(p))

/* Every celt_assert of the hardened build becomes the obligation "no internal abort". */
#ifndef VERIF_FATAL_NO_OBLIGATION
#define VERIF_FATAL_BODY { __CPROVER_assert(0, "celt_assert: no internal abort (celt_fatal unreachable)"); __CPROVER_assume(0); }
#else
#define VERIF_FATAL_BODY { __CPROVER_assume(0); }
#endif
#define VERIF_DEFINE_CELT_FATAL \
  void celt_fatal(const char *str, const char *file, int line) VERIF_FATAL_BODY

#define VERIF_NATIVE_MAIN(h)
#endif /* VERIF_NATIVE */
#endif
