/* Common definitions for proof translation units (CBMC side). */
#ifndef VERIF_COMMON_H
#define VERIF_COMMON_H
#include <stddef.h>
#include <stdint.h>
#include <limits.h>

int nondet_int(void);
unsigned nondet_uint(void);
unsigned char nondet_uchar(void);
short nondet_short(void);
long long nondet_ll(void);
float nondet_float(void);
_Bool nondet_bool(void);
size_t nondet_size_t(void);
void *nondet_ptr(void);

/* A canary is an assertion that MUST be refuted: it shows that the code after the
   call under proof is reachable, i.e. that requires/assume are not contradictory. */
/* Finding a model for a canary is a SAT search through the whole function and costs far more
   than the (UNSAT) proof itself, so each group is built twice: the proof build has no canaries;
   the canary build (VERIF_CANARY_RUN) may add harness assumptions that shrink the input
   (reachability under stronger assumptions implies reachability under the proof's). */
#ifdef VERIF_CANARY_RUN
#define CANARY(name) __CPROVER_assert(0, "CANARY " name)
#define CANARY_ASSUME(c) __CPROVER_assume(c)
#else
#define CANARY(name)
#define CANARY_ASSUME(c)
#endif

#define PO(p) ((long long)__CPROVER_POINTER_OFFSET(p))
#define OS(p) ((long long)__CPROVER_OBJECT_SIZE(p))

/* Every celt_assert of the hardened build becomes the obligation "no internal abort". */
#ifndef VERIF_FATAL_NO_OBLIGATION
#define VERIF_FATAL_BODY { __CPROVER_assert(0, "celt_assert: no internal abort (celt_fatal unreachable)"); __CPROVER_assume(0); }
#else
#define VERIF_FATAL_BODY { __CPROVER_assume(0); }
#endif
#define VERIF_DEFINE_CELT_FATAL \
  void celt_fatal(const char *str, const char *file, int line) VERIF_FATAL_BODY

#endif
