/* C06: the LBRR-flag helper agrees with what the SILK decoder reads.  RFC 6716 4.2.3: a SILK frame starts, per channel
 * (mid then side), with one VAD flag per 20 ms SILK frame followed by one LBRR flag, each coded with probability 1/2.
 * The oracle below decodes those flags with the REAL range decoder (ec_dec_init / ec_dec_bit_logp), exactly as
 * silk_Decode does; opus_packet_has_lbrr must return their OR.  TOC, frame bytes fully symbolic; loop-free after
 * unwinding the <= 3 flag loops. */
#include "config.h"
#include "common.h"
#include "opus_parse.h"
#define RFC_SPF48_HELPER(toc) RFC_SPF48(toc)
#include "/repo/src/opus.c"
#include "/repo/src/opus_decoder.c"
#include "/repo/celt/entcode.c"
#include "/repo/celt/entdec.c"
#include <stdlib.h>
VERIF_DEFINE_CELT_FATAL
void h_has_lbrr(void)
{
   int flen = nondet_int(), i, c, nb, ch, lbrr = 0, got; unsigned char *p; ec_dec dec;
   __CPROVER_assume(0 <= flen && flen <= 3);                /* flen == 0: a TOC-only packet (zero-length frame, RFC 6716 3.2.1) */
   p = malloc(1 + flen); __CPROVER_assume(p != NULL);
   for (i = 0; i < 4; i++) if (i < 1 + flen) p[i] = nondet_uchar();
   __CPROVER_assume((p[0] & 3) == 0);                    /* one frame (code 0) */
   got = opus_packet_has_lbrr(p, 1 + flen);
   if (p[0] & 0x80) { __CPROVER_assert(got == 0, "CELT-only packets carry no LBRR"); return; }
   CANARY("silk or hybrid");
   if (flen == 0) { __CPROVER_assert(got == 0, "a zero-length (lost / DTX) frame carries no LBRR data"); return; }
   nb = opus_packet_get_samples_per_frame(p, 48000) > 960 ? opus_packet_get_samples_per_frame(p, 48000) / 960 : 1;   /* 20 ms SILK frames per Opus frame */
   ch = (p[0] & 4) ? 2 : 1;
   ec_dec_init(&dec, p + 1, flen);
   for (c = 0; c < 2; c++) if (c < ch) {
      for (i = 0; i < 3; i++) if (i < nb) (void)ec_dec_bit_logp(&dec, 1);     /* VAD flags */
      lbrr |= ec_dec_bit_logp(&dec, 1);                                       /* LBRR flag of this channel */
   }
   __CPROVER_assert(got == lbrr, "opus_packet_has_lbrr == OR of the per-channel LBRR flags the SILK decoder reads");
   CANARY("after has_lbrr");
}

/* C01 clause on this inspection function: any framing code, any length 0..5 (exact-size object, so a read beyond the
   packet is a bounds failure), result 0, 1 or a negative error code */
void h_has_lbrr_safe(void)
{
   int len = nondet_int(), i, got; unsigned char *p;
   __CPROVER_assume(0 <= len && len <= 5);
   p = malloc(len); __CPROVER_assume(p != NULL);
   for (i = 0; i < 5; i++) if (i < len) p[i] = nondet_uchar();
#ifdef VERIF_LBRR_MAXCOUNT   /* quick tier: code-3 packets with at most this many frames (keeps the parser's unwinding small) */
   __CPROVER_assume(len < 2 || (p[0] & 3) != 3 || (p[1] & 0x3F) <= VERIF_LBRR_MAXCOUNT);
#endif
   got = opus_packet_has_lbrr(p, len);
   __CPROVER_assert(got == 0 || got == 1 || got == OPUS_BAD_ARG || got == OPUS_INVALID_PACKET, "opus_packet_has_lbrr returns 0, 1, OPUS_BAD_ARG or OPUS_INVALID_PACKET");
   __CPROVER_assert(len >= 1 || got < 0, "an empty packet is refused");
   CANARY("after has_lbrr_safe");
}

/* header helpers agree with the parser on the same bytes */
void h_helpers_agree(void)
{
   int len = nondet_int(), i, n, cnt; unsigned char *p; opus_int16 size[48]; opus_int32 Fs = nondet_int();
   __CPROVER_assume(1 <= len && len <= 3);
   __CPROVER_assume(Fs == 8000 || Fs == 12000 || Fs == 16000 || Fs == 24000 || Fs == 48000);
   p = malloc(len); __CPROVER_assume(p != NULL);
   for (i = 0; i < 3; i++) if (i < len) p[i] = nondet_uchar();
   cnt = opus_packet_get_nb_frames(p, len);
   n = opus_packet_parse(p, len, NULL, NULL, size, NULL);
   __CPROVER_assert(n <= 0 || cnt == n, "opus_packet_get_nb_frames agrees with the parser on accepted packets");
   __CPROVER_assert(n <= 0 || opus_packet_get_nb_samples(p, len, Fs) == n * opus_packet_get_samples_per_frame(p, Fs), "nb_samples == frames x samples per frame on accepted packets");
   __CPROVER_assert(opus_packet_get_samples_per_frame(p, Fs) * (48000 / Fs) == opus_packet_get_samples_per_frame(p, 48000), "samples per frame scale with the rate");
   __CPROVER_assert(opus_packet_get_samples_per_frame(p, 48000) == RFC_SPF48_HELPER(p[0]), "samples per frame == RFC 6716 table 2");
   __CPROVER_assert(opus_packet_get_nb_channels(p) == ((p[0] & 4) ? 2 : 1), "channel count is the stereo bit");
   CANARY("after helpers");
}
