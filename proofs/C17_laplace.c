/* C17: Laplace coder (real celt/laplace.c) against every (fs, decay) pair of the real e_prob_model table
 * (celt/quant_bands.c).  The three range-coder primitives are replaced by RECORDING stubs: they only capture
 * the interval handed to them / return an arbitrary code point; their real contracts are C08's. */
#include "config.h"
#include "common.h"
#include "entenc.h"
#include "entdec.h"

static unsigned g_fm, g_dfl, g_dfh, g_efl, g_efh; static int g_nupd, g_nenc;
unsigned ec_decode_bin(ec_dec *_this, unsigned _bits) { (void)_this; __CPROVER_assert(_bits == 15, "laplace decodes with 15-bit precision"); return g_fm; }
void ec_dec_update(ec_dec *_this, unsigned _fl, unsigned _fh, unsigned _ft) { (void)_this; __CPROVER_assert(_ft == 32768, "ft = 2^15"); g_dfl = _fl; g_dfh = _fh; g_nupd++; }
void ec_encode_bin(ec_enc *_this, unsigned _fl, unsigned _fh, unsigned _bits) { (void)_this; __CPROVER_assert(_bits == 15, "laplace encodes with 15-bit precision"); g_efl = _fl; g_efh = _fh; g_nenc++; }

#include "/repo/celt/laplace.c"
#include "/repo/celt/quant_bands.c"
VERIF_DEFINE_CELT_FATAL

#ifndef VERIF_LM
#define VERIF_LM 0
#endif
#ifndef VERIF_INTRA
#define VERIF_INTRA 0
#endif

static void check_pair(unsigned fs, int decay)
{
   ec_dec dec; ec_enc enc; int val, v2, w, w2;
   /* (1) every code point fm decodes to a value whose interval contains fm, and re-encoding that value
          reproduces exactly this interval (no clamping happens for a decoded value) */
   g_fm = nondet_uint(); __CPROVER_assume(g_fm < 32768);
   g_nupd = g_nenc = 0;
   val = ec_laplace_decode(&dec, fs, decay);
   __CPROVER_assert(g_nupd == 1 && g_dfl <= g_fm && g_fm < g_dfh && g_dfh <= 32768, "decoded symbol's interval contains the code point and lies inside [0,32768)");
   v2 = val;
   ec_laplace_encode(&enc, &v2, fs, decay);
   __CPROVER_assert(g_nenc == 1 && v2 == val, "a decoded value is never clamped by the encoder");
   __CPROVER_assert(g_efl == g_dfl && g_efh == g_dfh, "encoder and decoder assign the same interval to the value");
   /* (2) any value w encodes (after the documented clamping to w2) to a non-empty interval, and every code point in
          that interval decodes back to w2: intervals of different values cannot overlap, decode inverts encode */
   w = nondet_int(); __CPROVER_assume(-32768 <= w && w <= 32768);
   w2 = w; g_nenc = 0;
   ec_laplace_encode(&enc, &w2, fs, decay);
   __CPROVER_assert(g_efl < g_efh && g_efh <= 32768, "encoded interval non-empty and inside [0,32768)");
   __CPROVER_assert((w >= 0) == (w2 >= 0) || w2 == 0 || w == 0, "clamping keeps the sign");
   __CPROVER_assert((w2 < 0 ? -w2 : w2) <= (w < 0 ? -w : w), "clamping only reduces the magnitude");
   g_fm = nondet_uint(); __CPROVER_assume(g_efl <= g_fm && g_fm < g_efh);
   val = ec_laplace_decode(&dec, fs, decay);
   __CPROVER_assert(val == w2, "decode inverts encode (after the encoder's clamping)");
}

void h_laplace(void)
{
   int pi;
   for (pi = 0; pi < 21; pi++)
      check_pair(e_prob_model[VERIF_LM][VERIF_INTRA][2*pi] << 7, e_prob_model[VERIF_LM][VERIF_INTRA][2*pi+1] << 6);
   CANARY("after laplace");
}
