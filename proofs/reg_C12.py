GROUPS = [
 dict(name='dec_reset', cls='P', tu='C11_dec_ctl.c', entry='h_dec_reset', dfcc=False, timeout=600, unwind=2, functions=['opus_decoder_ctl'],
      trusted=['stub bodies for celt_decoder_ctl and silk_ResetDecoder: the sub-state resets themselves are not verified'],
      what='OPUS_RESET_STATE on an arbitrary decoder state: settings kept, stream state equal to what opus_decoder_init gives'),
 dict(name='dec_layout', cls='P', tu='C11_dec_ctl.c', entry='h_dec_init', dfcc=False, timeout=600, unwind=2, expect_canaries=2, functions=['opus_decoder_init', 'opus_decoder_get_size'],
      trusted=['stub sizes for the SILK / CELT sub-decoders'],
      what='sub-states at aligned, disjoint offsets inside opus_decoder_get_size() bytes, stored as offsets (position independent => memcpy-copyable top level)'),
 dict(name='enc_reset', cls='P', tu='C11_enc_ctl.c', entry='h_enc_reset', dfcc=False, timeout=900, unwind=2, cbmc_flags=['--object-bits', '10', '--no-array-field-sensitivity'],
      functions=['opus_encoder_ctl'], trusted=['celt_encoder_ctl stub; silk_InitEncoder and tonality_analysis_reset are bodiless (sub-state resets not verified)'],
      what='OPUS_RESET_STATE on an arbitrary encoder state: settings kept, stream state (incl. DTX counter, delay buffer) as opus_encoder_init leaves it'),
]
META = {}

for _ch in (1, 2):
  for _n, _d, _f in (('celt_enc_reset', [], 'opus_custom_encoder_ctl'), ('celt_dec_reset', ['-DVERIF_CELT_DEC=1'], 'opus_custom_decoder_ctl')):
    GROUPS.append(dict(name='%s_c%d' % (_n, _ch), cls='F', tu='C12_celt_reset.c', entry='h_' + _n, dfcc=False, canary='real', expect_canaries=1, unwind=46, timeout=1500, mem_gb=24, defines=['-U__SSE__', '-DVERIF_CH=%d' % _ch] + _d, tier='thorough' if (_d and _ch == 2) else 'quick',
        functions=[_f, _f.replace('_ctl', '_get_size')], trusted=['memset is a recording stub (destination, value, length)'],
        bounds='static 48 kHz mode, %d channel(s), any last-coded channel count; every other byte of the state arbitrary' % _ch,
        what='OPUS_RESET_STATE of the MDCT-layer %s: clears exactly from the reset marker to the end of the state of an object with the created channel count, keeps the configuration, re-establishes the defaults of init' % ('encoder' if not _d else 'decoder')))
