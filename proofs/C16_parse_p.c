/* C16: opus_packet_extensions_parse (real body) on ANY padding bytes of any length (<= 2^30), any frame count 0..48 and any
 * capacity: its loop under a loop contract, opus_extension_iterator_next replaced by its contract (enforced on the real
 * recursive body in group iterator_next), opus_extension_iterator_init real (it establishes the iterator invariant: the base
 * case).  A ghost index verif_KE stands for "every reported extension". */
#include "config.h"
#include "ext_contracts.h"
#include <stdlib.h>
int verif_KE;
static const unsigned char *g_data; static int g_len, g_nbf;
#undef  OPUS_VERIF_LOOP_ext_parse
#define OPUS_VERIF_LOOP_ext_parse \
  __CPROVER_assigns(count, ret, __CPROVER_object_whole(&iter), __CPROVER_object_whole(extensions)) \
  __CPROVER_loop_invariant(0 <= count && count <= *nb_extensions) \
  __CPROVER_loop_invariant(iter.data == data && iter.len == len && iter.nb_frames == nb_frames && iter.frame_max == nb_frames && RI_IT(&iter)) \
  __CPROVER_loop_invariant((0 <= verif_KE && verif_KE < count) ==> (2 <= extensions[verif_KE].id && extensions[verif_KE].id <= 127 && \
        0 <= extensions[verif_KE].frame && extensions[verif_KE].frame < nb_frames && extensions[verif_KE].len >= 0 && \
        (extensions[verif_KE].id < 32 ==> extensions[verif_KE].len <= 1) && \
        IT_IN(extensions[verif_KE].data) && IT_OFF(extensions[verif_KE].data) + extensions[verif_KE].len <= len))
#include "/repo/src/extensions.c"
VERIF_DEFINE_CELT_FATAL

void h_ext_parse_p(void)
{
   int len = nondet_int(), nbf = nondet_int(), cap = nondet_int(), ret, k = nondet_int(); opus_int32 nb;
   unsigned char *data; opus_extension_data *exts;
   __CPROVER_assume(1 <= len && len <= EXT_LEN_CAP && 0 <= nbf && nbf <= 48 && 0 <= cap && cap <= (1 << 20));
   data = malloc(len); __CPROVER_assume(data != NULL);
   exts = malloc((cap > 0 ? cap : 1) * sizeof(opus_extension_data)); __CPROVER_assume(exts != NULL);
   verif_xbase = data; verif_xn = len; verif_KE = k; nb = cap;
   ret = opus_packet_extensions_parse(data, len, exts, &nb, nbf);
   __CPROVER_assert(ret == 0 || ret == OPUS_INVALID_PACKET || ret == OPUS_BUFFER_TOO_SMALL, "result is 0, OPUS_INVALID_PACKET or OPUS_BUFFER_TOO_SMALL");
   __CPROVER_assert(0 <= nb && nb <= cap, "the reported count never exceeds the capacity");
   if (ret == 0 || ret == OPUS_INVALID_PACKET) {
      if (0 <= k && k < nb) {
         CANARY("an extension is reported");
         __CPROVER_assert(2 <= exts[k].id && exts[k].id <= 127 && (exts[k].id >= 32 || exts[k].len <= 1), "every reported extension has an id in 2..127 (3..127 outside replayed regions), short ids carry at most one byte");
         __CPROVER_assert(0 <= exts[k].frame && exts[k].frame < nbf, "every reported extension belongs to an existing frame");
         __CPROVER_assert(exts[k].len >= 0 && __CPROVER_same_object(exts[k].data, data) && PO(exts[k].data) >= 0 && PO(exts[k].data) + exts[k].len <= len,
                          "every reported extension's payload lies inside the padding");
      }
   }
   CANARY("after parse");
}
