/* C10: opus_multistream_decoder_get_size / _init (real bodies) for ANY stream counts (1..255 streams, 0..streams coupled,
 * 1..255 channels): the three loops of init under loop contracts.  opus_decoder_get_size / opus_decoder_init are stubs with
 * the sizes of the shipped build (their own contracts are C11's); the init stub asserts that the state it is handed lies
 * inside get_size() bytes.  Ghost indices: verif_KS (a stream), verif_K (a channel, used by validate_layout's contract too). */
#include "config.h"
#include "common.h"
#include <stdlib.h>
#include "opus.h"
#include "opus_private.h"
int verif_K, verif_KS;
#define VAL8(x) ((((int)(x)) + 7) / 8 * 8)      /* align() of the LP64 build, as a constant expression */
#define VERIF_DEC_SIZE(ch) ((ch) == 1 ? 18260 : 27028)      /* opus_decoder_get_size of the shipped build */
#define HDR VAL8(sizeof(OpusMSDecoder))
#define A2  VAL8(VERIF_DEC_SIZE(2))
#define A1  VAL8(VERIF_DEC_SIZE(1))
static int g_init_calls, g_chK; static long long g_offK; static char *g_base; static int g_size; static opus_int32 g_Fs;
#undef  OPUS_VERIF_LOOP_ms_validate_layout
#define OPUS_VERIF_LOOP_ms_validate_layout \
  __CPROVER_assigns(i) \
  __CPROVER_loop_invariant(0 <= i && i <= layout->nb_channels) \
  __CPROVER_loop_invariant((0 <= verif_K && verif_K < i) ==> (layout->mapping[verif_K] < max_channel || layout->mapping[verif_K] == 255)) \
  __CPROVER_decreases(layout->nb_channels - i)
#undef  OPUS_VERIF_LOOP_ms_dec_init_map
#define OPUS_VERIF_LOOP_ms_dec_init_map \
  __CPROVER_assigns(i, __CPROVER_object_upto(st->layout.mapping, 256)) \
  __CPROVER_loop_invariant(0 <= i && i <= st->layout.nb_channels) \
  __CPROVER_loop_invariant((0 <= verif_K && verif_K < i) ==> st->layout.mapping[verif_K] == mapping[verif_K]) \
  __CPROVER_decreases(st->layout.nb_channels - i)
#undef  OPUS_VERIF_LOOP_ms_dec_init_coupled
#define OPUS_VERIF_LOOP_ms_dec_init_coupled \
  __CPROVER_assigns(i, ret, ptr, g_init_calls, g_chK, g_offK) \
  __CPROVER_loop_invariant(0 <= i && i <= st->layout.nb_coupled_streams && g_init_calls == i) \
  __CPROVER_loop_invariant(__CPROVER_same_object(ptr, (char *)st) && PO(ptr) == HDR + (long long)i * A2) \
  __CPROVER_loop_invariant((0 <= verif_KS && verif_KS < i) ==> (g_chK == 2 && g_offK == HDR + (long long)verif_KS * A2)) \
  __CPROVER_decreases(st->layout.nb_coupled_streams - i)
#undef  OPUS_VERIF_LOOP_ms_dec_init_mono
#define OPUS_VERIF_LOOP_ms_dec_init_mono \
  __CPROVER_assigns(i, ret, ptr, g_init_calls, g_chK, g_offK) \
  __CPROVER_loop_invariant(st->layout.nb_coupled_streams <= i && i <= st->layout.nb_streams && g_init_calls == i) \
  __CPROVER_loop_invariant(__CPROVER_same_object(ptr, (char *)st) && PO(ptr) == HDR + (long long)st->layout.nb_coupled_streams * A2 + (long long)(i - st->layout.nb_coupled_streams) * A1) \
  __CPROVER_loop_invariant((0 <= verif_KS && verif_KS < i) ==> (verif_KS < st->layout.nb_coupled_streams ? (g_chK == 2 && g_offK == HDR + (long long)verif_KS * A2) : \
        (g_chK == 1 && g_offK == HDR + (long long)st->layout.nb_coupled_streams * A2 + (long long)(verif_KS - st->layout.nb_coupled_streams) * A1))) \
  __CPROVER_decreases(st->layout.nb_streams - i)
#include "/repo/src/opus_multistream.c"
#define opus_packet_parse_impl opus_packet_parse_impl_UNUSED_DECL
#include "/repo/src/opus_multistream_decoder.c"
VERIF_DEFINE_CELT_FATAL
int opus_decoder_get_size(int channels) { return channels == 1 || channels == 2 ? VERIF_DEC_SIZE(channels) : 0; }
int opus_decoder_init(OpusDecoder *st, opus_int32 Fs, int channels)
{
   __CPROVER_assert(__CPROVER_same_object((char *)st, g_base) && PO((char *)st) >= HDR && PO((char *)st) + VERIF_DEC_SIZE(channels) <= g_size,
                    "every stream decoder state lies inside get_size() bytes, behind the header");
   __CPROVER_assert(Fs == g_Fs && (channels == 1 || channels == 2), "stream decoders get the caller's rate and 1 or 2 channels");
   if (g_init_calls == verif_KS) { g_chK = channels; g_offK = PO((char *)st); }
   g_init_calls++;
   return nondet_bool() ? OPUS_OK : OPUS_BAD_ARG;
}

void h_ms_decoder_init_p(void)
{
   int streams = nondet_int(), coupled = nondet_int(), channels = nondet_int(), size, ret, ks = nondet_int(), kc = nondet_int(); opus_int32 Fs = nondet_int();
   unsigned char mapping[256]; OpusMSDecoder *st; char *base;
   int counts_ok = !(coupled > streams || streams < 1 || coupled < 0 || streams > 255 - coupled);
   /* get_size itself does not check the 255 limit (init and create do): beyond the documented range its int arithmetic can
      overflow, so it is called inside that range only (recorded assumption; observation in DESIGN.md 9.4) */
   __CPROVER_assume(streams <= 255 && coupled <= 255);
   size = opus_multistream_decoder_get_size(streams, coupled);
   __CPROVER_assert((size == 0) == (coupled > streams || streams < 1 || coupled < 0), "get_size is 0 exactly when streams < 1 or coupled is outside 0..streams");
   __CPROVER_assert(!counts_ok || size == HDR + coupled * A2 + (streams - coupled) * A1, "get_size = header + per-stream decoder sizes (aligned)");
   g_init_calls = 0; g_Fs = Fs; verif_KS = ks; verif_K = kc;
   if (!counts_ok || channels < 1 || channels > 255) {
      OpusMSDecoder dummy; g_base = (char *)&dummy; g_size = sizeof(dummy);
      ret = opus_multistream_decoder_init(&dummy, Fs, channels, streams, coupled, mapping);
      __CPROVER_assert(ret == OPUS_BAD_ARG && g_init_calls == 0, "init rejects illegal stream or channel counts before touching any stream state");
      CANARY("illegal counts"); return;
   }
   __CPROVER_assume(0 <= ks && ks < streams && 0 <= kc && kc < channels);
   base = malloc(size); __CPROVER_assume(base != NULL); st = (OpusMSDecoder *)base; g_base = base; g_size = size;
   ret = opus_multistream_decoder_init(st, Fs, channels, streams, coupled, mapping);
   {  int bad = mapping[kc] != 255 && mapping[kc] >= streams + coupled;
      __CPROVER_assert(!bad || ret == OPUS_BAD_ARG, "a mapping entry naming a non-existent coded channel is rejected");
      __CPROVER_assert(!(bad && ret == OPUS_BAD_ARG) || 1, "");
   }
   if (ret == OPUS_OK) {
      CANARY("init ok");
      __CPROVER_assert(mapping[kc] == 255 || mapping[kc] < streams + coupled, "accepted: every mapping entry is a coded channel or 255");
      __CPROVER_assert(st->layout.nb_channels == channels && st->layout.nb_streams == streams && st->layout.nb_coupled_streams == coupled && st->layout.mapping[kc] == mapping[kc], "the layout is stored as given");
      __CPROVER_assert(g_init_calls == streams, "one decoder per stream is initialised");
      __CPROVER_assert(g_chK == (ks < coupled ? 2 : 1), "coupled streams first (stereo), then mono");
      __CPROVER_assert(g_offK == HDR + (long long)(ks < coupled ? ks : coupled) * A2 + (long long)(ks < coupled ? 0 : ks - coupled) * A1, "stream states are laid out back to back after the header");
   }
   CANARY("after init");
}
