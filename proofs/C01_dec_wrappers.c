/* C01/C09/C13: the public decode entry points opus_decode / opus_decode24 / opus_decode_float (real wrappers,
 * src/opus_decoder.c) around opus_decode_native, which is REPLACED by a contract stating what was established for it
 * in the decode_native groups (result range, exact PLC/FEC duration) plus a ghost record of its arguments. */
#include "config.h"
#include "common.h"
#include <stdlib.h>
#include <math.h>
#include "decoder_contracts.h"
int verif_K; unsigned verif_out_bits; int verif_out_valid;
int verif_n_frame, verif_n_fec, verif_n_soft, verif_n_sd, verif_n_len; const void *verif_n_data; int verif_n_calls;

#undef  OPUS_VERIF_LOOP_dec24_convert
#define OPUS_VERIF_LOOP_dec24_convert \
  __CPROVER_assigns(i, __CPROVER_object_upto(pcm, (size_t)ret * st->channels * sizeof(opus_int32))) \
  __CPROVER_loop_invariant(0 <= i && i <= ret * st->channels) \
  /* invariants may not call functions (RES2INT24 is lrintf): the call-free characterisation of rounding to nearest is used */ \
  __CPROVER_loop_invariant((0 <= verif_K && verif_K < i && out[verif_K] > -255.f && out[verif_K] < 255.f) ==> \
        ((double)pcm[verif_K] - 8388608.0 * (double)out[verif_K] <= 0.5 && (double)pcm[verif_K] - 8388608.0 * (double)out[verif_K] >= -0.5)) \
  __CPROVER_decreases(ret * st->channels - i)

#define opus_packet_parse_impl opus_packet_parse_impl_REAL_UNUSED
#define opus_pcm_soft_clip opus_pcm_soft_clip_REAL_UNUSED
#include "/repo/src/opus.c"
#undef opus_packet_parse_impl
#undef opus_pcm_soft_clip
#include "/repo/src/opus_decoder.c"
VERIF_DEFINE_CELT_FATAL
#define BITS(f) (*(const unsigned *)&(f))

int opus_decode_native(OpusDecoder *st, const unsigned char *data, opus_int32 len, opus_res *pcm, int frame_size, int decode_fec,
      int self_delimited, opus_int32 *packet_offset, int soft_clip, const OpusDRED *dred, opus_int32 dred_offset)
__CPROVER_requires(frame_size > 0 && frame_size <= (1 << 24) && __CPROVER_w_ok(pcm, (size_t)frame_size * st->channels * sizeof(opus_res)))
__CPROVER_assigns(verif_out_bits, verif_out_valid, verif_n_frame, verif_n_fec, verif_n_soft, verif_n_sd, verif_n_len, verif_n_data, verif_n_calls,
                  st->last_packet_duration, __CPROVER_object_upto(pcm, (size_t)frame_size * st->channels * sizeof(opus_res)))
__CPROVER_ensures(__CPROVER_return_value == OPUS_BAD_ARG || __CPROVER_return_value == OPUS_BUFFER_TOO_SMALL || __CPROVER_return_value == OPUS_INTERNAL_ERROR ||
                  __CPROVER_return_value == OPUS_INVALID_PACKET || (0 < __CPROVER_return_value && __CPROVER_return_value <= frame_size))
/* established in group decode_native_fs*: concealment / FEC of a multiple of 2.5 ms returns exactly the request or an error */
__CPROVER_ensures(((data == NULL || len == 0 || decode_fec == 1) && __CPROVER_return_value > 0) ==> __CPROVER_return_value == frame_size)
__CPROVER_ensures((decode_fec < 0 || decode_fec > 1) ==> __CPROVER_return_value == OPUS_BAD_ARG)
__CPROVER_ensures(len < 0 && data != NULL && decode_fec == 0 ==> __CPROVER_return_value < 0)
__CPROVER_ensures(verif_n_frame == frame_size && verif_n_fec == decode_fec && verif_n_soft == soft_clip && verif_n_sd == self_delimited && verif_n_len == len &&
                  verif_n_data == (const void *)data && verif_n_calls == __CPROVER_old(verif_n_calls) + 1)
__CPROVER_ensures(verif_out_valid == (__CPROVER_return_value > 0 && 0 <= verif_K && verif_K < __CPROVER_return_value * st->channels))
__CPROVER_ensures(verif_out_valid ==> (verif_out_bits == BITS(pcm[verif_K]) && !isnan(pcm[verif_K])))
;
/* stub of the float -> int16 kernel (celt/mathops.c, other TU): checks the buffers it is handed and records its
   arguments; the conversion of one sample is the RES2INT16 lemma of C13 */
static int verif_f2i_cnt = -1; static const void *verif_f2i_out; static unsigned verif_f2i_in_bits; static int verif_f2i_calls;
void celt_float2int16_c(const float *in, short *out, int cnt)
{
   __CPROVER_assert(cnt >= 0 && (cnt == 0 || (__CPROVER_r_ok(in, (size_t)cnt * sizeof(float)) && __CPROVER_w_ok(out, (size_t)cnt * sizeof(short)))), "float->int16 conversion stays inside both buffers");
   if (cnt > 0) __CPROVER_havoc_slice(out, (size_t)cnt * sizeof(short));
   verif_f2i_cnt = cnt; verif_f2i_out = out; verif_f2i_calls++;
   if (0 <= verif_K && verif_K < cnt) verif_f2i_in_bits = BITS(in[verif_K]);
}

#define SETUP_DEC \
   OpusDecoder *st = malloc(sizeof(OpusDecoder) + 64); int frame_size = nondet_int(), fec = nondet_int(), ret, null_data = nondet_bool(); opus_int32 len = nondet_int(); unsigned char *data = NULL; \
   __CPROVER_assume(st != NULL && DEC_OK(st)); \
   __CPROVER_assume(frame_size <= 48000 && len <= 2000); \
   if (!null_data) { __CPROVER_assume(len >= 0); data = malloc(len > 0 ? len : 1); __CPROVER_assume(data != NULL); } \
   verif_K = nondet_int(); __CPROVER_assume(0 <= verif_K); verif_n_calls = 0; verif_out_valid = 0; verif_f2i_calls = 0;

#define COMMON_CHECKS(NAME, SOFT) \
   if (frame_size <= 0) { __CPROVER_assert(ret == OPUS_BAD_ARG && verif_n_calls == 0, NAME ": frame_size <= 0 is refused"); return; } \
   __CPROVER_assert(ret == OPUS_BAD_ARG || ret == OPUS_BUFFER_TOO_SMALL || ret == OPUS_INTERNAL_ERROR || ret == OPUS_INVALID_PACKET || (0 < ret && ret <= frame_size), NAME ": documented error or 0 < n <= frame_size"); \
   if (verif_n_calls > 0) { \
      __CPROVER_assert(verif_n_calls == 1 && verif_n_fec == fec && verif_n_data == (const void *)data && verif_n_len == len && verif_n_sd == 0 && verif_n_soft == (SOFT), NAME ": the native decoder is called once with the caller's packet and flags"); \
      if (data == NULL || len <= 0 || fec) { CANARY("plc or fec request"); __CPROVER_assert(verif_n_frame == frame_size, NAME ": a concealment / FEC request is forwarded with the full requested duration"); \
                                             __CPROVER_assert(ret <= 0 || ret == frame_size, NAME ": concealment / FEC returns exactly the requested duration"); } \
      else { int nb = opus_packet_get_nb_samples(data, len, st->Fs); __CPROVER_assert(nb > 0 && verif_n_frame == (frame_size < nb ? frame_size : nb), NAME ": a received packet is decoded into min(frame_size, packet duration)"); } \
   } else if (frame_size > 0) __CPROVER_assert(ret == OPUS_INVALID_PACKET && data != NULL && len > 0 && !fec, NAME ": only a packet with an invalid duration is refused before decoding");

void h_opus_decode24(void)
{
   SETUP_DEC
   opus_int32 *pcm = malloc((size_t)(frame_size > 0 ? frame_size : 1) * st->channels * sizeof(opus_int32)); __CPROVER_assume(pcm != NULL);
   ret = opus_decode24(st, data, len, pcm, frame_size, fec);
   COMMON_CHECKS("opus_decode24", 0)
   if (ret > 0 && verif_K < ret * st->channels) { float f; unsigned b = verif_out_bits; f = *(float *)&b;
      __CPROVER_assert(verif_out_valid, "opus_decode24: sample K was produced by the native decoder");
      if (f > -255.f && f < 255.f) __CPROVER_assert((double)pcm[verif_K] - 8388608.0 * (double)f <= 0.5 && (double)pcm[verif_K] - 8388608.0 * (double)f >= -0.5,
                       "opus_decode24: sample K is the float output scaled by 2^23 and rounded to nearest (|error| <= 1/2 LSB; the tie rule is the RES2INT24 lemma of C13)"); }
   CANARY("after decode24");
}
void h_opus_decode(void)
{
   SETUP_DEC
   opus_int16 *pcm = malloc((size_t)(frame_size > 0 ? frame_size : 1) * st->channels * sizeof(opus_int16)); __CPROVER_assume(pcm != NULL);
   ret = opus_decode(st, data, len, pcm, frame_size, fec);
   COMMON_CHECKS("opus_decode", 1)
   if (ret > 0) __CPROVER_assert(verif_f2i_calls == 1 && verif_f2i_cnt == ret * st->channels && verif_f2i_out == (const void *)pcm, "opus_decode: exactly ret*channels samples are converted into the caller's buffer");
   else __CPROVER_assert(verif_f2i_calls == 0, "opus_decode: nothing is written on error");
   if (ret > 0 && verif_K < ret * st->channels) __CPROVER_assert(verif_out_valid && verif_f2i_in_bits == verif_out_bits, "opus_decode: sample K handed to the int16 conversion is sample K of the (soft-clipped) native output");
   CANARY("after decode");
}
void h_opus_decode_float(void)
{
   SETUP_DEC
   float *pcm = malloc((size_t)(frame_size > 0 ? frame_size : 1) * st->channels * sizeof(float)); __CPROVER_assume(pcm != NULL);
   ret = opus_decode_float(st, data, len, pcm, frame_size, fec);
   if (frame_size <= 0) { __CPROVER_assert(ret == OPUS_BAD_ARG && verif_n_calls == 0, "opus_decode_float: frame_size <= 0 is refused"); return; }
   __CPROVER_assert(verif_n_calls == 1 && verif_n_frame == frame_size && verif_n_fec == fec && verif_n_soft == 0 && verif_n_data == (const void *)data, "opus_decode_float: native decoder writes straight into the caller's buffer, no soft clipping");
   CANARY("after decode_float");
}
