/* C08 (class B): the decoder inverts the encoder symbol for symbol — REAL entenc.c / entdec.c end to end on short
 * operation sequences: VERIF_NOPS operations of symbolic kind and parameters into a buffer of <= VERIF_STORAGE bytes,
 * ec_enc_done, then the same calls on a decoder; if the encoder reports no error every decoded value equals the
 * encoded one, and after every operation both sides report the same ec_tell / ec_tell_frac / rng.
 * Also: "finishing within budget cannot fail": tell <= 8*storage and no prior error => ec_enc_done reports none. */
#include "config.h"
#include "common.h"
#include "/repo/celt/entcode.c"
#include "/repo/celt/entenc.c"
#include "/repo/celt/entdec.c"
#include <stdlib.h>
VERIF_DEFINE_CELT_FATAL
#ifndef VERIF_NOPS
#define VERIF_NOPS 2
#endif
#ifndef VERIF_K0
#define VERIF_K0 0
#endif
#ifndef VERIF_K1
#define VERIF_K1 3
#endif
#ifndef VERIF_K2
#define VERIF_K2 1
#endif
static const int verif_kinds[3] = {VERIF_K0, VERIF_K1, VERIF_K2};
#ifndef VERIF_STORAGE
#define VERIF_STORAGE 6
#endif
#ifndef VERIF_FTMAX
#define VERIF_FTMAX 256          /* division-based kinds only with small totals */
#endif
typedef struct { int kind; unsigned a, b, c; opus_uint32 v; unsigned char icdf[4]; } op_t;
/* kinds: 0 bit_logp(v,a)  1 encode_bin(fl=a,fh=b,bits=c)  2 icdf(sym v, table, ftb=c)  3 bits(v, nbits a)  4 uint(v, ft=a)  5 encode(fl=a,fh=b,ft=c) */

void h_inversion(void)
{
   op_t ops[VERIF_NOPS]; ec_enc enc; ec_dec dec; unsigned char buf[VERIF_STORAGE]; const unsigned storage = VERIF_STORAGE; int i, k;
   opus_uint32 tell_e[VERIF_NOPS], frac_e[VERIF_NOPS], rng_e[VERIF_NOPS]; int tell_before_done, err_before_done;
   for (i = 0; i < VERIF_NOPS; i++) {
      op_t *o = &ops[i];
      o->kind = verif_kinds[i]; o->a = nondet_uint(); o->b = nondet_uint(); o->c = nondet_uint(); o->v = nondet_uint();
      if (o->kind == 0) __CPROVER_assume(1 <= o->a && o->a <= 15 && o->v <= 1);
      if (o->kind == 1) __CPROVER_assume(1 <= o->c && o->c <= 15 && o->a < o->b && o->b <= (1u << o->c));
      if (o->kind == 2) { for (k = 0; k < 4; k++) o->icdf[k] = nondet_uchar();
         __CPROVER_assume(o->c == 8 && o->icdf[0] > o->icdf[1] && o->icdf[1] > o->icdf[2] && o->icdf[2] > o->icdf[3] && o->icdf[3] == 0 && o->v <= 3); }
      if (o->kind == 3) __CPROVER_assume(1 <= o->a && o->a <= 25 && o->v < (1u << o->a));
      if (o->kind == 4) __CPROVER_assume(2 <= o->a && o->a <= VERIF_FTMAX && o->v < o->a);
      if (o->kind == 5) __CPROVER_assume(1 <= o->c && o->c <= VERIF_FTMAX && o->a < o->b && o->b <= o->c);
   }
   ec_enc_init(&enc, buf, storage);
   for (i = 0; i < VERIF_NOPS; i++) {
      op_t *o = &ops[i];
      switch (o->kind) {
      case 0: ec_enc_bit_logp(&enc, (int)o->v, o->a); break;
      case 1: ec_encode_bin(&enc, o->a, o->b, o->c); break;
      case 2: ec_enc_icdf(&enc, (int)o->v, o->icdf, o->c); break;
      case 3: ec_enc_bits(&enc, o->v, o->a); break;
      case 4: ec_enc_uint(&enc, o->v, o->a); break;
      default: ec_encode(&enc, o->a, o->b, o->c); break;
      }
      tell_e[i] = ec_tell(&enc); frac_e[i] = ec_tell_frac(&enc); rng_e[i] = enc.rng;
      __CPROVER_assert(i == 0 || frac_e[i] >= frac_e[i-1], "fractional bit count never decreases");
   }
#ifdef VERIF_PATCH
   /* initial-bit patching: the first VERIF_PATCH operations are single bits of probability 1/2 (the documented
      requirement: "at least _nbits bits must have already been encoded using probabilities that are an exact power of
      two"); they are overwritten by the bits of pv, most significant first */
   {  unsigned pv = nondet_uint(); __CPROVER_assume(pv < (1u << VERIF_PATCH));
      for (i = 0; i < VERIF_PATCH; i++) __CPROVER_assume(ops[i].kind == 0 && ops[i].a == 1);
      ec_enc_patch_initial_bits(&enc, pv, VERIF_PATCH);
      for (i = 0; i < VERIF_PATCH; i++) ops[i].v = (pv >> (VERIF_PATCH - 1 - i)) & 1;   /* what the decoder must now see */
   }
#endif
   tell_before_done = ec_tell(&enc); err_before_done = ec_get_error(&enc);
   ec_enc_done(&enc);
   __CPROVER_assert((tell_before_done <= (int)(8 * storage) && !err_before_done) ==> !ec_get_error(&enc), "finishing cannot fail when the reported bit usage is within the buffer");
   if (ec_get_error(&enc)) return;
   CANARY("encoded without error");
   ec_dec_init(&dec, buf, storage);
   for (i = 0; i < VERIF_NOPS; i++) {
      op_t *o = &ops[i]; unsigned s;
      switch (o->kind) {
      case 0: __CPROVER_assert((opus_uint32)ec_dec_bit_logp(&dec, o->a) == o->v, "bit_logp decodes the encoded bit"); break;
      case 1: s = ec_decode_bin(&dec, o->c); __CPROVER_assert(o->a <= s && s < o->b, "decode_bin lands in the encoded symbol's interval"); ec_dec_update(&dec, o->a, o->b, 1u << o->c); break;
      case 2: __CPROVER_assert((opus_uint32)ec_dec_icdf(&dec, o->icdf, o->c) == o->v, "icdf decodes the encoded symbol"); break;
      case 3: __CPROVER_assert(ec_dec_bits(&dec, o->a) == o->v, "raw bits decode to the encoded value"); break;
      case 4: __CPROVER_assert(ec_dec_uint(&dec, o->a) == o->v, "uint decodes to the encoded value"); break;
      default: s = ec_decode(&dec, o->c); __CPROVER_assert(o->a <= s && s < o->b, "decode lands in the encoded symbol's interval"); ec_dec_update(&dec, o->a, o->b, o->c); break;
      }
      __CPROVER_assert((opus_uint32)ec_tell(&dec) == tell_e[i] && ec_tell_frac(&dec) == frac_e[i] && dec.rng == rng_e[i], "decoder reports the same bit usage and range as the encoder after every operation");
   }
   __CPROVER_assert(!ec_get_error(&dec), "decoder reports no error on a stream the encoder produced without error");
   CANARY("after inversion");
}
