/* C06 (class B): the real parser accepts a byte string IFF the RFC 6716 transcription does, with the same frames.
 * Bounded: len <= VERIF_LEN_MAX, every byte symbolic, both framings; all loops unwound (no contracts). */
#include "config.h"
#include "common.h"
#include "opus_types.h"
#include "/repo/src/opus.c"
#include <stdlib.h>
#include "rfc6716_framing.h"
VERIF_DEFINE_CELT_FATAL
#ifndef VERIF_LEN_MAX
#define VERIF_LEN_MAX 8
#endif
#ifndef VERIF_IFF_CASE
#define VERIF_IFF_CASE(d, len, sd) 1
#endif
void h_iff_rfc(void)
{
   int len = nondet_int(), sd = nondet_bool(), i, ret, k;
   unsigned char *data, toc; const unsigned char *frames[48]; opus_int16 size[48]; int po; opus_int32 pko; const unsigned char *padding; opus_int32 plen;
   rfc_packet spec;
   __CPROVER_assume(1 <= len && len <= VERIF_LEN_MAX);
   data = malloc(len); __CPROVER_assume(data != NULL);
   for (i = 0; i < VERIF_LEN_MAX; i++) if (i < len) data[i] = nondet_uchar();
   __CPROVER_assume(VERIF_IFF_CASE(data, len, sd));
   ret = opus_packet_parse_impl(data, len, sd, &toc, frames, size, &po, &pko, &padding, &plen);
   rfc6716_parse(data, len, sd, &spec);
   __CPROVER_assert((ret > 0) == (spec.ok == 1), "accepted by the parser IFF well-formed per RFC 6716 section 3 / Appendix B");
   if (ret > 0 && spec.ok) {
      CANARY("both accept");
      __CPROVER_assert(ret == spec.count, "same number of frames as the RFC defines");
      k = nondet_int(); __CPROVER_assume(0 <= k && k < ret);
      __CPROVER_assert(size[k] == spec.size[k], "same frame sizes");
      __CPROVER_assert(frames[k] == data + spec.off[k], "same frame offsets");
      __CPROVER_assert(plen == spec.padding && padding == data + (spec.consumed - spec.padding), "same padding");
      __CPROVER_assert(pko == spec.consumed && po == spec.off[0] && toc == spec.toc, "same consumed length, payload offset and TOC");
   }
   if (ret <= 0) { CANARY("both reject"); __CPROVER_assert(ret == OPUS_INVALID_PACKET, "malformed packet => OPUS_INVALID_PACKET"); }
}
