/* C13 (multistream / projection encoders): each of the three public entry points hands the native encoder a consistent description
 * of the sample format it was given: the copy-in function, the analysis down-mix function (which reads the ORIGINAL caller buffer),
 * the sample width and the float flag all belong to the same format.  An inconsistent quadruple makes the signal analysis read the
 * buffer in the wrong format, and the three views of the same audio no longer give identical packets.
 * REAL wrappers of src/opus_projection_encoder.c (VERIF_PROJECTION) or src/opus_multistream_encoder.c; the native encoder is a
 * recording stub (for the multistream file: calls redirected with goto-instrument --replace-calls).  Loop-free. */
#include "config.h"
#include "common.h"
#include <stdlib.h>
#include "opus.h"
#include "opus_multistream.h"
#include "opus_projection.h"
#include "opus_private.h"
static opus_copy_channel_in_func g_copy; static downmix_func g_downmix; static int g_lsb, g_float, g_calls, g_frame; static const void *g_pcm, *g_user; static void *g_st;
static int verif_record(OpusMSEncoder *st, opus_copy_channel_in_func copy_channel_in, const void *pcm, int analysis_frame_size, unsigned char *data, opus_int32 max_data_bytes,
      int lsb_depth, downmix_func downmix, int float_api, void *user_data)
{ (void)data; (void)max_data_bytes; g_st = st; g_copy = copy_channel_in; g_pcm = pcm; g_frame = analysis_frame_size; g_lsb = lsb_depth; g_downmix = downmix; g_float = float_api; g_user = user_data; g_calls++; return nondet_int(); }
#ifdef VERIF_PROJECTION
int opus_multistream_encode_native(OpusMSEncoder *st, opus_copy_channel_in_func copy_channel_in, const void *pcm, int analysis_frame_size, unsigned char *data, opus_int32 max_data_bytes,
      int lsb_depth, downmix_func downmix, int float_api, void *user_data)
{ return verif_record(st, copy_channel_in, pcm, analysis_frame_size, data, max_data_bytes, lsb_depth, downmix, float_api, user_data); }
#include "/repo/src/opus_projection_encoder.c"
#define COPY16 opus_projection_copy_channel_in_short
#define COPY24 opus_projection_copy_channel_in_int24
#define COPYF  opus_projection_copy_channel_in_float
#define ENC16(st, p, n, d, m) opus_projection_encode(st, p, n, d, m)
#define ENC24(st, p, n, d, m) opus_projection_encode24(st, p, n, d, m)
#define ENCF(st, p, n, d, m)  opus_projection_encode_float(st, p, n, d, m)
typedef struct { OpusProjectionEncoder e; char rest[64]; } blk_t;
#define SETUP(b) __CPROVER_assume((b).e.mixing_matrix_size_in_bytes >= 0 && (b).e.mixing_matrix_size_in_bytes <= 16 && (b).e.demixing_matrix_size_in_bytes >= 0 && (b).e.demixing_matrix_size_in_bytes <= 16)
#define STP(b) (&(b).e)
#else
#include "/repo/src/opus_multistream.c"
#include "/repo/src/opus_multistream_encoder.c"
static int verif_ms_native(OpusMSEncoder *st, opus_copy_channel_in_func copy_channel_in, const void *pcm, int analysis_frame_size, unsigned char *data, opus_int32 max_data_bytes,
      int lsb_depth, downmix_func downmix, int float_api, void *user_data)
{ return verif_record(st, copy_channel_in, pcm, analysis_frame_size, data, max_data_bytes, lsb_depth, downmix, float_api, user_data); }
void *verif_keep[] = { (void *)verif_ms_native };
#define COPY16 opus_copy_channel_in_short
#define COPY24 opus_copy_channel_in_int24
#define COPYF  opus_copy_channel_in_float
#define ENC16(st, p, n, d, m) opus_multistream_encode(st, p, n, d, m)
#define ENC24(st, p, n, d, m) opus_multistream_encode24(st, p, n, d, m)
#define ENCF(st, p, n, d, m)  opus_multistream_encode_float(st, p, n, d, m)
typedef struct { OpusMSEncoder e; char rest[64]; } blk_t;
#define SETUP(b) ((void)0)
#define STP(b) (&(b).e)
#endif
VERIF_DEFINE_CELT_FATAL
void h_ms_enc_wrappers(void)
{
   blk_t b; static opus_int16 p16[8]; static opus_int32 p24[8]; static float pf[8]; unsigned char data[16]; int n = nondet_int(), which = nondet_int();
   SETUP(b); __CPROVER_assume(0 <= which && which <= 2);
   g_calls = 0;
   if (which == 0) { CANARY("16-bit entry"); ENC16(STP(b), p16, n, data, 16);
      __CPROVER_assert(g_calls == 1 && g_copy == COPY16 && g_downmix == downmix_int && g_lsb == 16 && g_float == 0 && g_pcm == p16 && g_frame == n, "16-bit entry point: copy-in, analysis down-mix, sample width and float flag all describe 16-bit input"); }
   else if (which == 1) { CANARY("24-bit entry"); ENC24(STP(b), p24, n, data, 16);
      __CPROVER_assert(g_calls == 1 && g_copy == COPY24 && g_downmix == downmix_int24 && g_lsb == MAX_ENCODING_DEPTH && g_float == 0 && g_pcm == p24 && g_frame == n, "24-bit entry point: copy-in, analysis down-mix, sample width and float flag all describe 24-bit input"); }
   else { CANARY("float entry"); ENCF(STP(b), pf, n, data, 16);
      __CPROVER_assert(g_calls == 1 && g_copy == COPYF && g_downmix == downmix_float && g_lsb == MAX_ENCODING_DEPTH && g_float == 1 && g_pcm == pf && g_frame == n, "float entry point: copy-in, analysis down-mix, sample width and float flag all describe float input"); }
}
