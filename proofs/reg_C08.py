GROUPS = []
def _g(fn, replace=(), cls='P', unwind=0, timeout=300, **kw):
    d = dict(name=fn, cls=cls, tu='C08_enc.c', entry='h_' + fn, enforce=[fn], replace=list(replace),
             unwind=unwind, timeout=timeout, what='contract of %s enforced on the real body' % fn)
    d.update(kw)
    GROUPS.append(d)

_g('ec_write_byte')
_g('ec_write_byte_at_end')
_g('ec_enc_carry_out', replace=['ec_write_byte'])
_g('ec_enc_normalize', replace=['ec_enc_carry_out'], unwind=5, cls='F')
_g('ec_encode', replace=['ec_enc_normalize'])
_g('ec_encode_bin', replace=['ec_enc_normalize'])
_g('ec_enc_bit_logp', replace=['ec_enc_normalize'])
_g('ec_enc_icdf', replace=['ec_enc_normalize'])
_g('ec_enc_icdf16', replace=['ec_enc_normalize'])
_g('ec_enc_bits', replace=['ec_write_byte_at_end'], unwind=6, cls='F')
_g('ec_enc_uint', replace=['ec_encode', 'ec_enc_bits', 'ec_read_byte', 'ec_read_byte_from_end', 'ec_dec_normalize'])
_g('ec_enc_patch_initial_bits')
PTRDIFF = (r'arithmetic overflow on signed - in \(\(_this->buf \+', 'CBMC 6.11 reports a signed-overflow on any pointer difference with a negative result '
           '(reproduced on a 3-line program); the term is the compile-time type check 0*((dst)-(src)) of OPUS_MOVE')
_g('ec_enc_shrink', ignore=[PTRDIFF])
_g('ec_enc_done', replace=['ec_enc_carry_out', 'ec_write_byte_at_end'], unwind=7, cls='F')
_g('ec_enc_init')
def _d(fn, replace=(), cls='P', unwind=0, timeout=300, **kw):
    d = dict(name=fn, cls=cls, tu='C08_dec.c', entry='h_' + fn, enforce=[fn], replace=list(replace),
             unwind=unwind, timeout=timeout, what='contract of %s enforced on the real body' % fn)
    d.update(kw)
    GROUPS.append(d)
_d('ec_read_byte')
_d('ec_read_byte_from_end')
_d('ec_dec_normalize', replace=['ec_read_byte'], unwind=5, cls='F')
_d('ec_dec_bit_logp', replace=['ec_dec_normalize'])
_d('ec_dec_bits', replace=['ec_read_byte_from_end'], unwind=6, cls='F')
_d('ec_dec_init', replace=['ec_read_byte', 'ec_dec_normalize'])
_d('ec_dec_icdf', replace=['ec_dec_normalize'])
META = {'enforced_elsewhere': ['ec_write_byte', 'ec_write_byte_at_end', 'ec_enc_carry_out', 'ec_enc_normalize', 'ec_encode', 'ec_enc_bits', 'ec_read_byte', 'ec_read_byte_from_end', 'ec_dec_normalize']}
