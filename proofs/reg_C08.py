GROUPS = []
def _g(fn, replace=(), cls='P', unwind=0, timeout=300, **kw):
    d = dict(name=fn, cls=cls, tu='C08_enc.c', entry='h_' + fn, enforce=[fn], replace=list(replace),
             unwind=unwind, timeout=timeout, what='contract of %s enforced on the real body' % fn)
    d.update(kw)
    GROUPS.append(d)

_g('ec_write_byte')
_g('ec_write_byte_at_end')
_g('ec_enc_carry_out', replace=['ec_write_byte'])
_g('ec_enc_normalize', replace=['ec_enc_carry_out'], unwind=5, cls='F')
_g('ec_encode', replace=['ec_enc_normalize'], timeout=3600, tier='off')  # range facts need multiplication/division reasoning: no result within 1 h
_g('ec_encode_bin', replace=['ec_enc_normalize'], timeout=3600, tier='off')
_g('ec_enc_bit_logp', replace=['ec_enc_normalize'])
_g('ec_enc_icdf', replace=['ec_enc_normalize'], timeout=3600, tier='off')
_g('ec_enc_icdf16', replace=['ec_enc_normalize'], tier='off')
_g('ec_enc_bits', replace=['ec_write_byte_at_end'], unwind=6, cls='F')
_g('ec_enc_uint', replace=['ec_encode', 'ec_enc_bits'])
_g('ec_enc_patch_initial_bits')
PTRDIFF = (r'arithmetic overflow on signed - in \(\(_this->buf \+', 'CBMC 6.11 reports a signed-overflow on any pointer difference with a negative result '
           '(reproduced on a 3-line program); the term is the compile-time type check 0*((dst)-(src)) of OPUS_MOVE')
_g('ec_enc_shrink', ignore=[PTRDIFF])
_g('ec_enc_done', replace=['ec_enc_carry_out', 'ec_write_byte_at_end'], unwind=7, cls='F')
_g('ec_enc_init')
def _d(fn, replace=(), cls='P', unwind=0, timeout=300, **kw):
    d = dict(name=fn, cls=cls, tu='C08_dec.c', entry='h_' + fn, enforce=[fn], replace=list(replace),
             unwind=unwind, timeout=timeout, what='contract of %s enforced on the real body' % fn)
    d.update(kw)
    GROUPS.append(d)
_d('ec_read_byte')
_d('ec_read_byte_from_end')
_d('ec_dec_normalize', replace=['ec_read_byte'], unwind=5, cls='F')
_d('ec_dec_bit_logp', replace=['ec_dec_normalize'])
_d('ec_dec_bits', replace=['ec_read_byte_from_end'], unwind=6, cls='F')
_d('ec_dec_init', replace=['ec_read_byte', 'ec_dec_normalize'])
_d('ec_dec_icdf', replace=['ec_dec_normalize'], timeout=3600, tier='off')
_LS = dict(cls='P', tu='C08_lockstep.c', unwind=5, canary='real', timeout=600,
           replace=['ec_enc_carry_out', 'ec_read_byte', 'ec_read_byte_from_end', 'ec_write_byte_at_end'])
GROUPS += [
 dict(_LS, name='ls_bit_logp', entry='h_ls_bit_logp', functions=['ec_enc_bit_logp', 'ec_dec_bit_logp', 'ec_tell', 'ec_tell_frac'], what='lock-step of ec_enc_bit_logp / ec_dec_bit_logp (real bodies, symbolic states)'),
 dict(_LS, name='ls_bin', tier='off', entry='h_ls_bin', functions=['ec_encode_bin', 'ec_decode_bin', 'ec_dec_update'], what='lock-step of ec_encode_bin / ec_decode_bin + ec_dec_update'),
 dict(_LS, name='ls_freq', tier='off', entry='h_ls_freq', functions=['ec_encode', 'ec_decode', 'ec_dec_update'], what='lock-step of ec_encode / ec_decode + ec_dec_update (ft <= 2^16)'),
 dict(_LS, name='ls_bits', entry='h_ls_bits', unwind=6, functions=['ec_enc_bits', 'ec_dec_bits'], what='lock-step of ec_enc_bits / ec_dec_bits'),
 dict(name='tell_frac', cls='P', tu='C08_lockstep.c', entry='h_tell_frac', dfcc=False, unwind=5, timeout=300, functions=['ec_tell_frac', 'ec_tell'],
      what='ec_tell_frac table version == reference recurrence; bracketed by 8*ec_tell, every normalised rng'),
]
for _b in range(1, 17):
    GROUPS.append(dict(_LS, name='ls_bin_b%d' % _b, entry='h_ls_bin', defines=['-DVERIF_BITS=%d' % _b], timeout=3600, tier='quick' if _b == 1 else 'thorough',
        functions=['ec_encode_bin', 'ec_decode_bin', 'ec_dec_update'], what='lock-step + invariants of ec_encode_bin / ec_decode_bin + ec_dec_update, bits = %d' % _b))
_INV = dict(cls='B', tu='C08_inversion_b.c', entry='h_inversion', dfcc=False, canary='real', expect_canaries=2, cex={'self': True, 'timeout': 300},
            functions=['ec_enc_init', 'ec_encode', 'ec_encode_bin', 'ec_enc_bit_logp', 'ec_enc_icdf', 'ec_enc_uint', 'ec_enc_bits', 'ec_enc_done',
                       'ec_dec_init', 'ec_decode', 'ec_decode_bin', 'ec_dec_update', 'ec_dec_bit_logp', 'ec_dec_icdf', 'ec_dec_uint', 'ec_dec_bits', 'ec_tell', 'ec_tell_frac'])
_KN = {0: 'bit', 1: 'bin', 2: 'icdf', 3: 'bits', 4: 'uint', 5: 'freq'}
for _a in range(6):
    for _b in range(6):
        _quick = (_a, _b) in ((0, 3),)
        GROUPS.append(dict(_INV, name='inv_%s_%s' % (_KN[_a], _KN[_b]), unwind=10, timeout=3600, mem_gb=20, tier='quick' if _quick else 'thorough',
            defines=['-DVERIF_K0=%d' % _a, '-DVERIF_K1=%d' % _b, '-DVERIF_STORAGE=5'],
            bounds='2 operations (%s then %s) with symbolic parameters and values, buffer of 5 bytes, ft <= 256 for division-based kinds' % (_KN[_a], _KN[_b]),
            what='encode -> ec_enc_done -> decode: values, tell, tell_frac and rng agree; done cannot fail within budget'))
# buffers so small that the range coder's bytes (front) and the raw bits (back) meet: ec_enc_done must flag the collision
for _st in (2, 3):
    for (_a, _b) in ((0, 3), (3, 3)):
        GROUPS.append(dict(_INV, name='inv_collide_%s_%s_st%d' % (_KN[_a], _KN[_b], _st), unwind=10, timeout=1800, mem_gb=12, tier='quick',
            defines=['-DVERIF_K0=%d' % _a, '-DVERIF_K1=%d' % _b, '-DVERIF_STORAGE=%d' % _st],
            bounds='2 operations (%s then %s) with symbolic parameters and values, buffer of %d bytes (front and back of the buffer meet)' % (_KN[_a], _KN[_b], _st),
            what='encode -> ec_enc_done -> decode in a buffer where range-coder bytes and raw bits collide: either an error is reported or everything decodes'))
# ec_encode is used through its contract by ec_enc_uint but its own range facts are NOT discharged (tier off): it is reported as an assumed contract
GROUPS.append(dict(_INV, name='inv_patch_bit_bit_freq', unwind=10, timeout=5400, mem_gb=20, tier='thorough',
    defines=['-DVERIF_NOPS=3', '-DVERIF_K0=0', '-DVERIF_K1=0', '-DVERIF_K2=5', '-DVERIF_STORAGE=5', '-DVERIF_PATCH=2'],
    bounds='2 bits (p=1/2) + one frequency-coded symbol (ft <= 256) + ec_enc_patch_initial_bits of the 2 bits, buffer of 5 bytes',
    what='initial-bit patching: if the encoder reports no error the decoder sees the patched bits and the following symbol unchanged'))
META = {'enforced_elsewhere': ['ec_write_byte', 'ec_write_byte_at_end', 'ec_enc_carry_out', 'ec_enc_normalize', 'ec_enc_bits', 'ec_read_byte', 'ec_read_byte_from_end', 'ec_dec_normalize']}
# case split by the constant precision (see VERIF_FTB_CASE in contracts/entcode_contracts.h): the union over k is the contract.
# Measured: ec_encode_bin 2 s / 3.5 s / 14 s / 208 s for bits = 1 / 2 / 4 / 6, no result in 1500 s for bits = 8 (monotonicity of the product in the
# small operand); the ICDF operations run out of memory (12 GB) in propositional reduction.  Cases that do not finish stay 'off' and the contracts
# stay listed as assumed where they are used.
for _k in range(1, 17):
    _g('ec_encode_bin', replace=['ec_enc_normalize'], timeout=1200, tier='thorough' if _k <= 6 else 'off', name='ec_encode_bin_b%d' % _k, defines=['-DVERIF_FTB=%d' % _k],
       what='contract of ec_encode_bin enforced on the real body, case _bits == %d' % _k)
for _k in range(1, 9):
    _g('ec_enc_icdf', replace=['ec_enc_normalize'], timeout=3600, tier='off', name='ec_enc_icdf_f%d' % _k, defines=['-DVERIF_FTB=%d' % _k],
       what='contract of ec_enc_icdf enforced on the real body, case _ftb == %d' % _k)
    _d('ec_dec_icdf', replace=['ec_dec_normalize'], timeout=3600, tier='off', name='ec_dec_icdf_f%d' % _k, defines=['-DVERIF_FTB=%d' % _k],
       what='contract of ec_dec_icdf enforced on the real body (search loop under its loop contract), case _ftb == %d' % _k)
