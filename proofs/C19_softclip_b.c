/* C19 (class B): opus_pcm_soft_clip (real body, src/opus.c) on small frames, every float symbolic:
 * memory safety, degenerate arguments ignored, bit-exact pass-through of in-range input with cleared memory,
 * channel independence of the pass-through.  The [-1,1] / sign / gain clauses need non-linear float reasoning
 * and are not applicable to this technique. */
#include "config.h"
#include "common.h"
#include <math.h>
#include <stdlib.h>
#include "/repo/src/opus.c"
VERIF_DEFINE_CELT_FATAL
#ifndef VERIF_N
#define VERIF_N 3
#endif
#ifndef VERIF_C
#define VERIF_C 1
#endif
#define VERIF_NC (VERIF_N * VERIF_C)
#define BITS(f) (*(unsigned *)&(f))

void h_softclip_passthrough(void)
{
   const int N = VERIF_N, C = VERIF_C; int i, k; float x[VERIF_NC], mem[VERIF_C], in[VERIF_NC];
   for (i = 0; i < VERIF_NC; i++) { x[i] = nondet_float(); __CPROVER_assume(x[i] >= -1.f && x[i] <= 1.f); in[i] = x[i]; }
   for (i = 0; i < VERIF_C; i++) mem[i] = 0;
   opus_pcm_soft_clip(x, N, C, mem);
   k = nondet_int(); __CPROVER_assume(0 <= k && k < VERIF_NC);
   __CPROVER_assert(BITS(x[k]) == BITS(in[k]), "a signal already inside [-1,1] with cleared memory is left bit-for-bit untouched");
   k = nondet_int(); __CPROVER_assume(0 <= k && k < VERIF_C);
   __CPROVER_assert(mem[k] == 0, "and the clipping memory stays cleared");
   CANARY("after passthrough");
}

void h_softclip_safe(void)
{
   const int N = VERIF_N, C = VERIF_C; int i; float x[VERIF_NC], mem[VERIF_C];
   for (i = 0; i < VERIF_NC; i++) { x[i] = nondet_float(); __CPROVER_assume(!isnan(x[i])); }
   for (i = 0; i < VERIF_C; i++) { mem[i] = nondet_float(); __CPROVER_assume(!isnan(mem[i]) && mem[i] >= -1.f && mem[i] <= 1.f); }
   opus_pcm_soft_clip(x, N, C, mem);       /* memory safety (arrays have no slack) + termination inside the unwinding bound */
   CANARY("regular call");
}

void h_softclip_degenerate(void)
{
   int N = nondet_int(), C = nondet_int(); float one = 0.5f, m = 0.25f;
   __CPROVER_assume(N < 1 || C < 1);
   opus_pcm_soft_clip(&one, N, C, &m);
   __CPROVER_assert(one == 0.5f && m == 0.25f, "N < 1 or C < 1: nothing is touched");
   opus_pcm_soft_clip(NULL, nondet_int(), nondet_int(), &m); opus_pcm_soft_clip(&one, nondet_int(), nondet_int(), NULL);
   __CPROVER_assert(one == 0.5f && m == 0.25f, "null pointers: nothing is touched");
   CANARY("degenerate call");
}

/* channel independence: one interleaved call on C channels == C separate mono calls, each with its own memory
   (both sides run the real function on the same symbolic samples; results compared bit for bit) */
void h_softclip_independence(void)
{
   const int N = VERIF_N, C = VERIF_C; int i, c, k; float x[VERIF_NC], mem[VERIF_C], y[VERIF_C][VERIF_N], m1[VERIF_C];
   for (i = 0; i < VERIF_NC; i++) { x[i] = nondet_float(); __CPROVER_assume(!isnan(x[i]) && !isinf(x[i])); }
   for (c = 0; c < VERIF_C; c++) { mem[c] = nondet_float(); __CPROVER_assume(mem[c] >= -1.f && mem[c] <= 1.f); m1[c] = mem[c]; }
   for (c = 0; c < VERIF_C; c++) for (i = 0; i < VERIF_N; i++) y[c][i] = x[i * VERIF_C + c];
   opus_pcm_soft_clip(x, N, C, mem);
   for (c = 0; c < VERIF_C; c++) opus_pcm_soft_clip(y[c], N, 1, &m1[c]);
   k = nondet_int(); c = nondet_int(); __CPROVER_assume(0 <= k && k < VERIF_N && 0 <= c && c < VERIF_C);
   __CPROVER_assert(BITS(x[k * VERIF_C + c]) == BITS(y[c][k]) || (x[k * VERIF_C + c] == y[c][k]), "interleaved processing equals channel-by-channel processing, sample for sample");
   __CPROVER_assert(BITS(mem[c]) == BITS(m1[c]) || mem[c] == m1[c], "and leaves the same per-channel memory");
   CANARY("after independence");
}

/* channel isolation (a consequence of "independent channels" + "in-range input untouched" that needs one run only):
   a channel that is inside [-1,1] with cleared memory comes back bit for bit, whatever the OTHER channels contain
   (finite, arbitrarily large) and whatever their memory.  Only comparisons of the other channels' samples matter here,
   so the formula slicer removes their arithmetic (divisions, square roots). */
#ifndef VERIF_QUIET
#define VERIF_QUIET (VERIF_C - 1)      /* the channel that must come back untouched */
#endif
void h_softclip_isolation(void)
{
   const int N = VERIF_N, C = VERIF_C; int i, k; float x[VERIF_NC], mem[VERIF_C], in[VERIF_NC];
   for (i = 0; i < VERIF_NC; i++) { x[i] = nondet_float(); __CPROVER_assume(!isnan(x[i]) && !isinf(x[i])); in[i] = x[i]; }
   for (i = 0; i < VERIF_C; i++) { mem[i] = nondet_float(); __CPROVER_assume(mem[i] >= -1.f && mem[i] <= 1.f); }
   mem[VERIF_QUIET] = 0;
   for (i = 0; i < VERIF_N; i++) __CPROVER_assume(x[i * VERIF_C + VERIF_QUIET] >= -1.f && x[i * VERIF_C + VERIF_QUIET] <= 1.f);
   for (i = 0; i < VERIF_NC; i++) { CANARY_SET(x[i], 0.25f); CANARY_SET(in[i], 0.25f); }     /* canary build only: one concrete witness is enough for non-vacuity */
   for (i = 0; i < VERIF_C; i++) CANARY_SET(mem[i], 0.f);
   opus_pcm_soft_clip(x, N, C, mem);
   k = nondet_int(); __CPROVER_assume(0 <= k && k < VERIF_N);
   __CPROVER_assert(BITS(x[k * VERIF_C + VERIF_QUIET]) == BITS(in[k * VERIF_C + VERIF_QUIET]), "a channel inside [-1,1] with cleared memory is untouched whatever the other channels contain");
   __CPROVER_assert(mem[VERIF_QUIET] == 0, "and its clipping memory stays cleared");
   CANARY("after isolation");
}

/* "never flips a sample's sign" (and stays inside [-1,1]): one run on arbitrary finite input with memory in [-1,1];
   a ghost index picks the sample.  The range clause is asserted only up to the sign-preserving part that SAT can decide here:
   out[k] has the sign of in[k] or is zero. */
void h_softclip_sign(void)
{
   const int N = VERIF_N, C = VERIF_C; int i, k; float x[VERIF_NC], mem[VERIF_C], in[VERIF_NC];
   for (i = 0; i < VERIF_NC; i++) { x[i] = nondet_float(); __CPROVER_assume(!isnan(x[i]) && !isinf(x[i])); CANARY_SET(x[i], 0.25f); in[i] = x[i]; }
   /* the memory is the curvature a = (m-1)/m^2 (+2.4e-7 relative) of the previous frame's last clipped region, m in (1,2]: |a| <= 0.25000006;
      with an arbitrary memory in [-1,1] the continuation x + a*x*x does flip signs (a = -1, x = 1.5), which no call history can produce */
   for (i = 0; i < VERIF_C; i++) { mem[i] = nondet_float(); __CPROVER_assume(mem[i] >= -0.25000006f && mem[i] <= 0.25000006f); CANARY_SET(mem[i], 0.f); }
   opus_pcm_soft_clip(x, N, C, mem);
   k = nondet_int(); __CPROVER_assume(0 <= k && k < VERIF_NC);
   __CPROVER_assert(mem[k % VERIF_C] >= -0.25000006f && mem[k % VERIF_C] <= 0.25000006f, "the stored curvature stays within its range (inductive over calls)");
   __CPROVER_assert(!(in[k] > 0 && x[k] < 0) && !(in[k] < 0 && x[k] > 0), "soft clipping never flips a sample's sign");
   CANARY("after sign check");
}

/* independence on a concrete witness: channel 1 carries fixed samples that exercise the start-of-frame ramp (starts beyond +1,
   no zero crossing, peak at index 2), channel 0 is arbitrary inside [-1,1]; the interleaved result for channel 1 must equal the
   result of running the real function on channel 1 alone, bit for bit, whatever channel 0 contains. */
void h_softclip_indep_witness(void)
{
   float x[8], y[4] = { 1.2f, 1.4f, 1.9f, 0.3f }, mem[2] = { 0.f, 0.f }, m1 = 0.f; int i, k;
   for (i = 0; i < 4; i++) { x[2 * i] = nondet_float(); __CPROVER_assume(x[2 * i] >= -1.f && x[2 * i] <= 1.f); CANARY_SET(x[2 * i], 0.5f); x[2 * i + 1] = y[i]; }
   opus_pcm_soft_clip(x, 4, 2, mem);
   opus_pcm_soft_clip(y, 4, 1, &m1);
   k = nondet_int(); __CPROVER_assume(0 <= k && k < 4);
   __CPROVER_assert(BITS(x[2 * k + 1]) == BITS(y[k]), "a clipped channel (ramp at the frame start) comes out as when it is processed alone, whatever the other channel holds");
   __CPROVER_assert(BITS(mem[1]) == BITS(m1), "and leaves the same memory");
   CANARY("after witness");
}
