/* C07: opus_repacketizer_cat_impl (real body) on an arbitrary repacketizer state satisfying the representation
 * invariant and an arbitrary packet: accept/reject conditions, invariant preserved, contents unchanged on rejection,
 * and the parser's writes at &rp->frames[nb_frames] / &rp->len[nb_frames] stay inside the 48-entry arrays BECAUSE
 * of the 120 ms test (pointer checks on the real struct).  The parser is a stub carrying exactly the clauses enforced
 * on the real parser under C06 (it really writes count entries through the interior pointers it is handed). */
#include "config.h"
#include "common.h"
#include <stdlib.h>
#include "opus_parse.h"
#include "opus.h"
#include "opus_private.h"
static int g_count; int verif_K2;   /* ghost: arbitrary frame slot 0..47 */
int verif_KP;   /* ghost: arbitrary index into the entries the parser writes */
int opus_packet_parse_impl(const unsigned char *data, opus_int32 len, int self_delimited, unsigned char *out_toc,
      const unsigned char *frames[48], opus_int16 size[48], int *payload_offset, opus_int32 *packet_offset,
      const unsigned char **padding, opus_int32 *padding_len)
{
   int ret = nondet_int(), total = 0, off = nondet_int();
   (void)self_delimited; (void)payload_offset; (void)packet_offset;
   if (size == NULL || len < 0) return OPUS_BAD_ARG;
   if (len == 0) return OPUS_INVALID_PACKET;
   __CPROVER_assume(1 <= off && off <= len);
   __CPROVER_assume(ret == OPUS_INVALID_PACKET || (1 <= ret && ret <= 48));
   if (ret < 0) return ret;
   if (RFC_CODE(data[0]) == 3 && len < 2) return OPUS_INVALID_PACKET;
   __CPROVER_assume(ret * RFC_SPF48(data[0]) <= 5760);
   __CPROVER_assume(ret == (RFC_CODE(data[0]) == 0 ? 1 : RFC_CODE(data[0]) < 3 ? 2 : (data[1] & 0x3F)));
   /* the parser writes count sizes (and frame pointers) through the pointers it is handed: the whole written range must be
      writable -- this is where "at most 48 frames" matters -- and an arbitrary entry verif_KP satisfies the C06 clauses */
   __CPROVER_assert(__CPROVER_w_ok(size, ret * sizeof(opus_int16)), "parser writes count sizes inside the array it was handed");
   if (frames) __CPROVER_assert(__CPROVER_w_ok(frames, ret * sizeof(*frames)), "parser writes count frame pointers inside the array it was handed");
   /* only the entry the harness will look at (verif_KP, arbitrary) is materialised; cat itself never reads the sizes */
   if (0 <= verif_KP && verif_KP < ret) {
      size[verif_KP] = nondet_short(); __CPROVER_assume(0 <= size[verif_KP] && size[verif_KP] <= 1275);
      if (frames) frames[verif_KP] = data + off;
   }
   total = nondet_int(); __CPROVER_assume(0 <= total && total <= 1275 * ret && off + total <= len);
   if (padding) { *padding = data + off + total; *padding_len = nondet_int(); __CPROVER_assume(0 <= *padding_len && *padding_len <= len - off - total); }
   if (out_toc) *out_toc = data[0];
   g_count = ret;
   return ret;
}
#undef  OPUS_VERIF_LOOP_rp_cat_fill
#define OPUS_VERIF_LOOP_rp_cat_fill \
  __CPROVER_assigns(curr_nb_frames, __CPROVER_object_whole(rp)) \
  __CPROVER_loop_invariant(1 <= curr_nb_frames && curr_nb_frames <= 48 && 0 <= rp->nb_frames && rp->nb_frames <= 48 && rp->nb_frames + curr_nb_frames <= 48) \
  __CPROVER_loop_invariant(rp->nb_frames >= __CPROVER_loop_entry(rp->nb_frames) && (long long)rp->nb_frames + curr_nb_frames == (long long)__CPROVER_loop_entry(rp->nb_frames) + __CPROVER_loop_entry(curr_nb_frames)) \
  __CPROVER_loop_invariant(rp->toc == __CPROVER_loop_entry(rp->toc) && rp->framesize == __CPROVER_loop_entry(rp->framesize)) \
  __CPROVER_loop_invariant(rp->len[verif_K2] == __CPROVER_loop_entry(rp->len[verif_K2]) && rp->frames[verif_K2] == __CPROVER_loop_entry(rp->frames[verif_K2])) \
  __CPROVER_loop_invariant(verif_K2 > __CPROVER_loop_entry(rp->nb_frames) || (rp->padding_len[verif_K2] == __CPROVER_loop_entry(rp->padding_len[verif_K2]) && rp->paddings[verif_K2] == __CPROVER_loop_entry(rp->paddings[verif_K2]))) \
  __CPROVER_loop_invariant((verif_K2 > __CPROVER_loop_entry(rp->nb_frames) && verif_K2 <= rp->nb_frames) ==> (rp->padding_len[verif_K2] == 0 && rp->paddings[verif_K2] == NULL)) \
  __CPROVER_decreases(curr_nb_frames)
#define opus_packet_parse_impl opus_packet_parse_impl_REAL_UNUSED
#include "/repo/src/opus.c"
#undef opus_packet_parse_impl
#include "/repo/src/extensions.c"
#include "/repo/src/opus_decoder.c"
#undef st
#include "/repo/src/repacketizer.c"
VERIF_DEFINE_CELT_FATAL

#define RP_OK(rp) (0 <= (rp)->nb_frames && (rp)->nb_frames <= 48 && \
   ((rp)->nb_frames == 0 || ((rp)->framesize == opus_packet_get_samples_per_frame(&(rp)->toc, 8000) && (rp)->nb_frames * (rp)->framesize <= 960)))

void h_cat(void)
{
   OpusRepacketizer rp, old; int len = nondet_int(), sd = nondet_bool(), ret, k; unsigned char *data;
   __CPROVER_assume(RP_OK(&rp));
   k = nondet_int(); __CPROVER_assume(0 <= k && k < 48);
   __CPROVER_assume(k >= rp.nb_frames || (0 <= rp.len[k] && rp.len[k] <= 1275 && rp.padding_len[k] >= 0));
   __CPROVER_assume(len <= 4000);
   data = malloc(len > 0 ? len : 1); __CPROVER_assume(data != NULL);
   old = rp; g_count = 0; verif_KP = k - rp.nb_frames; verif_K2 = k;
   ret = opus_repacketizer_cat_impl(&rp, data, len, sd);
   __CPROVER_assert(ret == OPUS_OK || ret == OPUS_INVALID_PACKET, "cat returns OPUS_OK or OPUS_INVALID_PACKET");
   __CPROVER_assert(RP_OK(&rp), "representation invariant preserved (at most 48 frames / 120 ms)");
   if (ret == OPUS_OK) {
      CANARY("accepted");
      __CPROVER_assert(len >= 1 && g_count >= 1 && rp.nb_frames == old.nb_frames + g_count, "accepted: the parser's frames were appended");
      __CPROVER_assert(old.nb_frames == 0 || ((old.toc ^ data[0]) & 0xFC) == 0, "accepted only when configuration-compatible");
      __CPROVER_assert((rp.toc & 0xFC) == (data[0] & 0xFC), "the repacketizer's configuration is the packet's");
      __CPROVER_assert(k >= old.nb_frames || (rp.len[k] == old.len[k] && rp.frames[k] == old.frames[k] && rp.padding_len[k] == old.padding_len[k]), "frames already held are untouched");
      __CPROVER_assert(k < old.nb_frames || k >= rp.nb_frames || (0 <= rp.len[k] && rp.len[k] <= 1275), "appended frames have legal sizes");
      __CPROVER_assert(k <= old.nb_frames || k >= rp.nb_frames || (rp.padding_len[k] == 0 && rp.paddings[k] == NULL), "padding/extensions stay attached to the first frame of their packet only");
   } else {
      CANARY("rejected");
      __CPROVER_assert(rp.nb_frames == old.nb_frames, "rejected: the number of frames is unchanged");
      __CPROVER_assert(k >= old.nb_frames || (rp.len[k] == old.len[k] && rp.frames[k] == old.frames[k] && rp.padding_len[k] == old.padding_len[k] && rp.paddings[k] == old.paddings[k]), "rejected: the frames held are unchanged");
      __CPROVER_assert(old.nb_frames == 0 || (rp.toc == old.toc && rp.framesize == old.framesize), "rejected: configuration of a non-empty repacketizer unchanged");
   }
   /* completeness of acceptance, phrased over what the parser (stub = C06 clauses) answered */
   __CPROVER_assert((len >= 1 && (old.nb_frames == 0 || ((old.toc ^ data[0]) & 0xFC) == 0) && g_count >= 1 &&
                     (g_count + old.nb_frames) * opus_packet_get_samples_per_frame(data, 8000) <= 960) ==> ret == OPUS_OK,
                    "a valid, compatible packet that keeps the total within 120 ms is accepted");
}
