/* C11 ("Settings in force ... bind every non-DTX packet thereafter"): the decision chain of the REAL opus_encode_native
 * (src/opus_encoder.c) on a fully symbolic encoder state, for every legal (Fs, channels, frame size, buffer size):
 *   - at every call of opus_encode_frame_native (the frame coder) the decided channel count, bandwidth and mode honour the
 *     user settings (forced channels, forced/maximum bandwidth, Nyquist limit, low-delay application, < 10 ms frames);
 *   - the frames handed to the frame coder add up to exactly the requested duration;
 *   - the "PLC" packets emitted when the budget is too small announce exactly the requested duration;
 *   - whatever it returns, opus_encode_native leaves every user setting unchanged, and re-establishes the state invariant.
 * The frame coder and the signal-dependent helpers are replaced by stubs with assumed frame contracts
 * (goto-instrument --replace-calls for the in-file ones): their results are arbitrary, so the statements hold for every signal. */
#include "config.h"
#include "common.h"
#include <stdarg.h>
#include <stdlib.h>
#include "/repo/src/opus_encoder.c"
#include "opus_parse.h"   /* RFC_* TOC macros (independent transcription of RFC 6716 table 2) */
VERIF_DEFINE_CELT_FATAL

#include "encoder_inv.h"

/* ---- ghost state shared with the stubs ---- */
static OpusEncoder verif_old;              /* the state at entry (settings + stream state) */
static int verif_frames_total, verif_frame_calls, verif_req_frame_size, verif_prev_channels0, verif_prev_mode0;
static int verif_call_idx, verif_second_call_stereo, verif_second_call_frames;
static int verif_lsb_arg, verif_fc_max = -1, verif_rp_maxlen = -1, verif_rp_pad = -1, verif_pad_newlen = -1, verif_multi;

/* stub of the frame coder (same signature; calls are redirected by goto-instrument --replace-calls): checks what the decision
   chain hands over, then changes stream state arbitrarily (assumed frame contract: no user setting is written) */
static opus_int32 verif_encode_frame_native(OpusEncoder *st, const opus_res *pcm, int frame_size, unsigned char *data, opus_int32 max_data_bytes,
      int float_api, int first_frame, AnalysisInfo *analysis_info, int is_silence, int redundancy, int celt_to_silk, int prefill, opus_int32 equiv_rate, int to_celt)
{
   opus_int32 ret = nondet_int(); int bw = st->bandwidth, lim;
   (void)pcm; (void)float_api; (void)first_frame; (void)analysis_info; (void)is_silence; (void)redundancy; (void)celt_to_silk; (void)prefill; (void)equiv_rate; (void)to_celt;
   CANARY("frame coder reached");
   if (verif_call_idx == 2) { verif_second_call_frames++; if (st->stream_channels != 1) verif_second_call_stereo = 1; }
   verif_frame_calls++; verif_frames_total += frame_size; verif_fc_max = max_data_bytes; verif_multi = (frame_size != verif_req_frame_size);
   __CPROVER_assert(max_data_bytes >= 1 && __CPROVER_w_ok(data, max_data_bytes), "frame coder gets a writable buffer of the size it is told");
   __CPROVER_assert(frame_size == st->Fs / 400 || frame_size == st->Fs / 200 || frame_size == st->Fs / 100 || frame_size == st->Fs / 50 ||
                    (st->mode == MODE_SILK_ONLY && (frame_size == st->Fs / 25 || frame_size == 3 * st->Fs / 50)), "frame coder gets a frame size its mode can code");
   __CPROVER_assert(MODE_OK(st->mode) && BW_OK(bw) && (st->stream_channels == 1 || st->stream_channels == 2) && st->stream_channels <= st->channels, "decided mode, bandwidth and channels are valid");
   /* FRAME_CODER_PRE (assumed by the frame-coder groups), conjunct by conjunct so that a refutation names the clause */
   __CPROVER_assert((frame_size >= st->Fs / 100 || st->mode == MODE_CELT_ONLY), "FRAME_CODER_PRE: frames below 10 ms reach the frame coder in MDCT-only mode");
   __CPROVER_assert(max_data_bytes >= 1, "FRAME_CODER_PRE: byte budget at least 1");
   __CPROVER_assert(max_data_bytes <= 1276 || frame_size != verif_req_frame_size, "byte budget of a single-frame packet at most 1276");
   __CPROVER_assert(max_data_bytes <= 4000, "FRAME_CODER_PRE: byte budget bounded by the caller's buffer");
   __CPROVER_assert(st->bitrate_bps >= 1, "FRAME_CODER_PRE: resolved bitrate is positive");
   __CPROVER_assert((long long)st->bitrate_bps * frame_size <= 2147483647LL, "FRAME_CODER_PRE: bitrate x frame size fits 32 bits (the frame coder multiplies them in int)");
   __CPROVER_assert(FRAME_CODER_PRE(st, frame_size, max_data_bytes), "everything the frame coder relies on (FRAME_CODER_PRE: assumed by the frame-coder groups) holds at the call");
   __CPROVER_assert(settings_ok(st) && stream_ok(st), "the state invariant holds when the frame coder is entered");
   /* channels: the forced count, except while a stereo->mono switch is being smoothed */
   if (verif_old.force_channels != OPUS_AUTO && st->channels == 2 && !(verif_old.force_channels == 1 && verif_prev_channels0 == 2))
      __CPROVER_assert(st->stream_channels == verif_old.force_channels, "the channel count handed to the frame coder is the forced one");
   /* bandwidth: never above the forced or maximum bandwidth nor the Nyquist limit (MDCT layer: medium band is coded as wideband) */
   lim = nyquist_bw(st->Fs);
   if (verif_old.user_bandwidth != OPUS_AUTO) { if (verif_old.user_bandwidth < lim) lim = verif_old.user_bandwidth; }
   else if (verif_old.max_bandwidth < lim) lim = verif_old.max_bandwidth;
   if (st->mode == MODE_CELT_ONLY && lim == OPUS_BANDWIDTH_MEDIUMBAND) lim = OPUS_BANDWIDTH_WIDEBAND;
   __CPROVER_assert(bw <= lim, "the bandwidth handed to the frame coder does not exceed the forced/maximum bandwidth nor the Nyquist limit");
   __CPROVER_assert(!(st->mode == MODE_CELT_ONLY && bw == OPUS_BANDWIDTH_MEDIUMBAND), "the MDCT layer is never asked for medium band");
   __CPROVER_assert(!(st->mode == MODE_HYBRID && bw <= OPUS_BANDWIDTH_WIDEBAND) && !(st->mode == MODE_SILK_ONLY && bw > OPUS_BANDWIDTH_WIDEBAND), "mode and bandwidth are consistent (hybrid iff SWB/FB with the speech layer)");
   /* mode: low-delay application and frames below 10 ms use only the MDCT layer */
   if (verif_old.application == OPUS_APPLICATION_RESTRICTED_LOWDELAY) __CPROVER_assert(st->mode == MODE_CELT_ONLY, "low-delay application uses only the MDCT layer");
   if (verif_req_frame_size < st->Fs / 100) __CPROVER_assert(st->mode == MODE_CELT_ONLY, "frames below 10 ms use only the MDCT layer");
   if (verif_old.user_forced_mode == MODE_CELT_ONLY && (verif_prev_mode0 == 0 || verif_prev_mode0 == MODE_CELT_ONLY)) __CPROVER_assert(st->mode == MODE_CELT_ONLY, "forced MDCT mode is honoured");
   /* assumed effect: stream state changes, settings do not */
   st->prev_mode = st->mode; st->prev_channels = st->stream_channels; st->prev_framesize = frame_size; if (ret != 1) st->first = 0;   /* discharged on the real frame coder in C20 frame_coder_* (a 1-byte speech-layer DTX exit leaves it alone) */
   st->rangeFinal = nondet_uint(); st->silk_bw_switch = nondet_int(); st->nb_no_activity_ms_Q1 = nondet_int();
   st->silk_mode.allowBandwidthSwitch = nondet_int() & 1; st->silk_mode.inWBmodeWithoutVariableLP = nondet_int() & 1; st->silk_mode.switchReady = nondet_int();
   __CPROVER_assume(ret >= -7 && ret <= max_data_bytes);
   return ret;
}
/* signal-dependent helpers of this file (calls redirected): any result */
static opus_val16 verif_compute_stereo_width(const opus_res *pcm, int frame_size, opus_int32 Fs, StereoWidthState *mem)
{ opus_val16 w = nondet_float(); (void)pcm; (void)frame_size; (void)Fs; (void)mem; __CPROVER_assume(w >= 0 && w <= Q15ONE); return w; }
static int verif_is_digital_silence(const opus_res *pcm, int frame_size, int channels, int lsb_depth)
{ (void)pcm; (void)frame_size; (void)channels;
  __CPROVER_assert(lsb_depth == (verif_lsb_arg < verif_old.lsb_depth ? verif_lsb_arg : verif_old.lsb_depth), "the silence detector uses min(entry point's width, OPUS_SET_LSB_DEPTH setting)");
  return nondet_int() & 1; }
static opus_val32 verif_compute_frame_energy(const opus_res *pcm, int frame_size, int channels, int arch)
{ opus_val32 e = nondet_float(); (void)pcm; (void)frame_size; (void)channels; (void)arch; __CPROVER_assume(e >= 0 && e <= 1e30f); return e; }
void *verif_keep[] = { (void *)verif_encode_frame_native, (void *)verif_compute_stereo_width, (void *)verif_is_digital_silence, (void *)verif_compute_frame_energy };

/* other translation units: assumed frame contracts */
int celt_encoder_ctl(CELTEncoder *OPUS_RESTRICT st, int request, ...)
{
   (void)st;
   if (request == OPUS_SET_LSB_DEPTH_REQUEST) {   /* C13: all three entry points assume the same precision once the LSB depth setting is <= 16 */
      va_list ap; opus_int32 v; va_start(ap, request); v = va_arg(ap, opus_int32); va_end(ap);
      __CPROVER_assert(v == (verif_lsb_arg < verif_old.lsb_depth ? verif_lsb_arg : verif_old.lsb_depth), "the sample precision handed to the MDCT layer is min(entry point's width, OPUS_SET_LSB_DEPTH setting), for the integer and the float API alike");
   }
   return OPUS_OK;
}
void run_analysis(TonalityAnalysisState *analysis, const CELTMode *celt_mode, const void *analysis_pcm, int analysis_frame_size, int frame_size,
      int c1, int c2, int C, opus_int32 Fs, int lsb_depth, downmix_func downmix, AnalysisInfo *analysis_info)
{ AnalysisInfo any; (void)analysis; (void)celt_mode; (void)analysis_pcm; (void)analysis_frame_size; (void)frame_size; (void)c1; (void)c2; (void)C; (void)Fs; (void)lsb_depth; (void)downmix;
  __CPROVER_assume(any.valid == 0 || any.valid == 1); __CPROVER_assume(any.bandwidth >= 0 && any.bandwidth <= 20);
  __CPROVER_assume(any.music_prob >= 0 && any.music_prob <= 1 && any.music_prob_min >= 0 && any.music_prob_min <= 1 && any.music_prob_max >= 0 && any.music_prob_max <= 1);
  __CPROVER_assume(any.activity_probability >= 0 && any.activity_probability <= 1); *analysis_info = any; }
void tonality_get_info(TonalityAnalysisState *tonal, AnalysisInfo *info_out, int len)
{ AnalysisInfo any; (void)tonal; (void)len; __CPROVER_assume(any.valid == 0 || any.valid == 1); *info_out = any; }
void tonality_analysis_reset(TonalityAnalysisState *tonal) { (void)tonal; }
opus_int silk_InitEncoder(void *encState, int arch, silk_EncControlStruct *encStatus) { (void)encState; (void)arch; (void)encStatus; return 0; }
int opus_packet_pad(unsigned char *data, opus_int32 len, opus_int32 new_len)
{ __CPROVER_assert(len >= 1 && new_len >= len && __CPROVER_w_ok(data, new_len), "opus_packet_pad gets a buffer of the new length"); verif_pad_newlen = new_len; return nondet_int() & 1 ? OPUS_OK : OPUS_BAD_ARG; }
OpusRepacketizer *opus_repacketizer_init(OpusRepacketizer *rp) { rp->nb_frames = 0; return rp; }
int opus_repacketizer_cat(OpusRepacketizer *rp, const unsigned char *data, opus_int32 len)
{ __CPROVER_assert(len >= 0 && (len == 0 || __CPROVER_r_ok(data, len)), "repacketizer is given a readable frame"); if (nondet_int() & 1) return OPUS_INVALID_PACKET; rp->nb_frames++; return OPUS_OK; }
opus_int32 opus_repacketizer_out_range_impl(OpusRepacketizer *rp, int begin, int end, unsigned char *data, opus_int32 maxlen, int self_delimited, int pad, const opus_extension_data *extensions, int nb_extensions)
{ opus_int32 r = nondet_int(); (void)self_delimited; (void)pad; (void)extensions; (void)nb_extensions;
  __CPROVER_assert(begin == 0 && end == rp->nb_frames && maxlen >= 1 && __CPROVER_w_ok(data, maxlen), "repacketizer output goes into the caller's buffer");
  verif_rp_maxlen = maxlen; verif_rp_pad = pad;
  __CPROVER_assume(r >= -7 && r <= maxlen && (!pad || r < 0 || r == maxlen)); return r; }   /* C07: pad => exactly maxlen */

#define VERIF_EXTRA 64
typedef struct { OpusEncoder e; char sub_states[VERIF_EXTRA]; } enc_block;
void h_encode_native(void)
{
   enc_block blk; OpusEncoder *st = &blk.e; opus_int32 ret, out_bytes = nondet_int(); int frame_size = nondet_int(), lsb_depth = nondet_int(), float_api = nondet_int() & 1;
   static opus_res pcm[5760 * 2]; unsigned char *data;
#ifdef VERIF_FS
   __CPROVER_assume(st->Fs == VERIF_FS);
#endif
   __CPROVER_assume(settings_ok(st) && stream_ok(st));
   __CPROVER_assume(st->celt_enc_offset >= (int)sizeof(OpusEncoder) && st->celt_enc_offset < (int)sizeof(OpusEncoder) + VERIF_EXTRA);
   __CPROVER_assume(st->silk_enc_offset >= (int)sizeof(OpusEncoder) && st->silk_enc_offset < (int)sizeof(OpusEncoder) + VERIF_EXTRA);
   /* opus_encode()/frame_size_select (C11 group frame_size_select) only pass the nine legal durations */
   __CPROVER_assume(frame_size == st->Fs / 400 || frame_size == st->Fs / 200 || frame_size == st->Fs / 100 || frame_size == st->Fs / 50 || frame_size == st->Fs / 25 ||
                    frame_size == 3 * st->Fs / 50 || frame_size == 4 * st->Fs / 50 || frame_size == 5 * st->Fs / 50 || frame_size == 6 * st->Fs / 50);
   __CPROVER_assume(out_bytes >= -2 && out_bytes <= 4000 && lsb_depth >= 8 && lsb_depth <= 24);
   data = malloc(out_bytes > 0 ? out_bytes : 1); __CPROVER_assume(data != NULL);
   /* snapshot: settings and the stream-state fields the specification refers to */
   verif_old.application = st->application; verif_old.channels = st->channels; verif_old.Fs = st->Fs; verif_old.force_channels = st->force_channels;
   verif_old.signal_type = st->signal_type; verif_old.user_bandwidth = st->user_bandwidth; verif_old.max_bandwidth = st->max_bandwidth;
   verif_old.user_forced_mode = st->user_forced_mode; verif_old.use_vbr = st->use_vbr; verif_old.vbr_constraint = st->vbr_constraint;
   verif_old.variable_duration = st->variable_duration; verif_old.user_bitrate_bps = st->user_bitrate_bps; verif_old.lsb_depth = st->lsb_depth;
   verif_old.lfe = st->lfe; verif_old.use_dtx = st->use_dtx; verif_old.fec_config = st->fec_config; verif_old.delay_compensation = st->delay_compensation;
   verif_old.silk_mode.complexity = st->silk_mode.complexity; verif_old.silk_mode.useInBandFEC = st->silk_mode.useInBandFEC;
   verif_old.silk_mode.packetLossPercentage = st->silk_mode.packetLossPercentage; verif_old.silk_mode.reducedDependency = st->silk_mode.reducedDependency;
   verif_old.celt_enc_offset = st->celt_enc_offset; verif_old.silk_enc_offset = st->silk_enc_offset; verif_old.encoder_buffer = st->encoder_buffer;
   verif_prev_channels0 = st->prev_channels; verif_prev_mode0 = st->prev_mode; verif_req_frame_size = frame_size; verif_frames_total = 0; verif_frame_calls = 0; verif_lsb_arg = lsb_depth;

   ret = opus_encode_native(st, pcm, frame_size, data, out_bytes, lsb_depth, pcm, frame_size, 0, -2, st->channels, (downmix_func)0, float_api);

   __CPROVER_assert(st->force_channels == verif_old.force_channels, "opus_encode_native leaves the OPUS_SET_FORCE_CHANNELS setting unchanged (whatever it returns)");
   st->force_channels = verif_old.force_channels;
   __CPROVER_assert(user_settings_eq(st, &verif_old), "opus_encode_native leaves every other user setting unchanged (whatever it returns)");
   __CPROVER_assert(settings_ok(st), "opus_encode_native re-establishes the state invariant (settings part)");
   __CPROVER_assert((st->stream_channels == 1 || st->stream_channels == 2) && st->stream_channels <= st->channels && st->prev_channels >= 0 && st->prev_channels <= st->channels, "state invariant at exit: channel counts");
   __CPROVER_assert(MODE_OK(st->mode) && (st->prev_mode == 0 || MODE_OK(st->prev_mode)) && (st->application != OPUS_APPLICATION_RESTRICTED_LOWDELAY || st->prev_mode == 0 || st->prev_mode == MODE_CELT_ONLY), "state invariant at exit: modes");
   __CPROVER_assert(BW_OK(st->bandwidth) && (st->auto_bandwidth == 0 || BW_OK(st->auto_bandwidth)), "state invariant at exit: bandwidths");
   __CPROVER_assert(stream_ok(st), "opus_encode_native re-establishes the state invariant (stream part)");
   __CPROVER_assert(ret <= out_bytes || ret < 0, "never reports more bytes than the caller's buffer holds");
   if (out_bytes <= 0) __CPROVER_assert(ret == OPUS_BAD_ARG, "no output space: OPUS_BAD_ARG");
   /* C05: with VBR off the size is round(bitrate x duration / 8) clipped to [1, min(max_data_bytes, 1276)]; OPUS_BITRATE_MAX fills the buffer.
      Observed where opus_encode_native fixes the size: the budget of the frame coder (which pads to it: assumed), the length the
      repacketizer is told to pad to, or the length the header-only packet is padded to.  k = duration in units of 2.5 ms. */
   if (!verif_old.use_vbr && verif_old.user_bitrate_bps != OPUS_AUTO && out_bytes >= 1 && (verif_frame_calls > 0 || verif_pad_newlen >= 0)) {
      long long k = (long long)frame_size * 400 / verif_old.Fs, b = verif_old.user_bitrate_bps, cap = out_bytes < 1276 ? out_bytes : 1276, got, d;
      got = verif_frame_calls == 0 ? verif_pad_newlen : verif_multi ? verif_rp_maxlen : verif_fc_max;
      CANARY("CBR size");
      if (verif_frame_calls == 0 || !verif_multi || verif_rp_maxlen >= 0) {
         if (verif_old.user_bitrate_bps == OPUS_BITRATE_MAX) {
            if (verif_frame_calls > 0 && verif_multi) { CANARY("CBR MAX multi-frame"); __CPROVER_assert(got == out_bytes, "CBR with OPUS_BITRATE_MAX, multi-frame packet: fills the output buffer"); }
            else __CPROVER_assert(got == cap || (verif_frame_calls == 0 && got == 2 && cap == 1), "CBR with OPUS_BITRATE_MAX: the packet fills the buffer (up to 1276 bytes when it holds a single frame)");
         }
         else {
            d = 3200 * got - b * k;      /* 8*Fs*bytes - bitrate*frame_size, divided by Fs/400 */
            __CPROVER_assert(got >= 1 && (got <= cap || (verif_frame_calls == 0 && got == 2)) &&
               ((d >= -1600 && d <= 1600) || (got == cap && d < 0) || (got == 1 && d > 0) || (verif_frame_calls == 0 && got == 2 && d > 0)),
               "CBR: the packet size is round(bitrate x duration / 8) clipped to [1, min(max_data_bytes, 1276)]");
         }
         if (verif_frame_calls > 0 && verif_multi) __CPROVER_assert(verif_rp_pad == 1 || verif_rp_pad == 0, "CBR multi-frame packet: padded to the CBR size unless every frame is DTX");
         if (ret > 0 && (verif_frame_calls == 0 || verif_multi) && !(verif_multi && verif_rp_pad == 0)) __CPROVER_assert(ret == got, "CBR: the returned length is the CBR size");
      }
   }
   if (verif_frame_calls > 0 && ret >= 0) {
      CANARY("coded packet");
      __CPROVER_assert(verif_frames_total == frame_size, "the frames handed to the frame coder add up to exactly the requested duration");
   }
   if (verif_frame_calls == 0 && ret > 0) {
      /* the 'PLC frame' packet written by opus_encode_native itself when the budget is too small: header announces the duration */
      int spf, nf;
      CANARY("header-only packet");
      spf = RFC_DUR400(data[0]) * (st->Fs / 400);      /* RFC 6716 table 2: frame duration in units of 2.5 ms */
      nf = (data[0] & 3) == 0 ? 1 : (data[0] & 3) != 3 ? 2 : (ret >= 2 ? (data[1] & 0x3F) : -1);
      if (st->use_vbr) __CPROVER_assert(nf >= 1 && spf * nf == frame_size, "header-only packet announces exactly the requested duration");
      __CPROVER_assert(((data[0] >> 2) & 1) == (st->stream_channels == 2), "header-only packet carries the current channel count");
   }
}

/* "A forced channel count changed mid-stream takes effect within three packets": a stereo stream, OPUS_SET_FORCE_CHANNELS(1) has just
   been accepted (force_channels == 1 in an otherwise arbitrary state that was coding stereo), then two encode calls: the first may
   still code stereo while the speech layer smooths the switch, every frame of the second must be handed to the frame coder as mono. */
void h_encode_native_force_mono(void)
{
   enc_block blk; OpusEncoder *st = &blk.e; opus_int32 r1, r2, out_bytes = nondet_int(); int frame_size = nondet_int(), lsb_depth = nondet_int(), float_api = nondet_int() & 1;
   static opus_res pcm[5760 * 2]; unsigned char *data;
#ifdef VERIF_FS
   __CPROVER_assume(st->Fs == VERIF_FS);
#endif
   __CPROVER_assume(settings_ok(st) && stream_ok(st) && st->channels == 2 && st->force_channels == 1 && st->lfe == 0);
   __CPROVER_assume(st->celt_enc_offset >= (int)sizeof(OpusEncoder) && st->celt_enc_offset < (int)sizeof(OpusEncoder) + VERIF_EXTRA);
   __CPROVER_assume(st->silk_enc_offset >= (int)sizeof(OpusEncoder) && st->silk_enc_offset < (int)sizeof(OpusEncoder) + VERIF_EXTRA);
   __CPROVER_assume(frame_size == st->Fs / 400 || frame_size == st->Fs / 200 || frame_size == st->Fs / 100 || frame_size == st->Fs / 50 || frame_size == st->Fs / 25 ||
                    frame_size == 3 * st->Fs / 50 || frame_size == 4 * st->Fs / 50 || frame_size == 5 * st->Fs / 50 || frame_size == 6 * st->Fs / 50);
   __CPROVER_assume(out_bytes >= 1 && out_bytes <= 4000 && lsb_depth >= 8 && lsb_depth <= 24);
   data = malloc(out_bytes); __CPROVER_assume(data != NULL);
   verif_old.application = st->application; verif_old.channels = st->channels; verif_old.Fs = st->Fs; verif_old.force_channels = st->force_channels;
   verif_old.user_bandwidth = st->user_bandwidth; verif_old.max_bandwidth = st->max_bandwidth; verif_old.user_forced_mode = st->user_forced_mode;
   verif_old.use_vbr = st->use_vbr; verif_old.user_bitrate_bps = OPUS_AUTO; verif_old.lsb_depth = st->lsb_depth;
   verif_lsb_arg = lsb_depth; verif_req_frame_size = frame_size;
   verif_prev_channels0 = 2; verif_prev_mode0 = st->prev_mode;          /* the smoothing exception of the per-call assertion applies to both calls */
   verif_call_idx = 1; verif_frames_total = 0; verif_frame_calls = 0;
   r1 = opus_encode_native(st, pcm, frame_size, data, out_bytes, lsb_depth, pcm, frame_size, 0, -2, st->channels, (downmix_func)0, float_api);
   verif_prev_channels0 = 2; verif_prev_mode0 = st->prev_mode;
   verif_call_idx = 2; verif_second_call_stereo = 0; verif_second_call_frames = 0; verif_frames_total = 0; verif_frame_calls = 0;
   r2 = opus_encode_native(st, pcm, frame_size, data, out_bytes, lsb_depth, pcm, frame_size, 0, -2, st->channels, (downmix_func)0, float_api);
   if (r1 > 0 && r2 > 0 && verif_second_call_frames > 0) {
      CANARY("second packet coded");
      __CPROVER_assert(!verif_second_call_stereo, "after OPUS_SET_FORCE_CHANNELS(1) the second packet is coded mono, frame by frame (the switch takes effect within three packets)");
   }
}
