/* C18: sub-frame gains and pitch lags (real code, full index domain, loops <= 4 unwound). */
#include "config.h"
#include "common.h"
#include "main.h"
#include "tables.h"
#include "/repo/silk/gain_quant.c"
#include "/repo/silk/log2lin.c"
#include "/repo/silk/lin2log.c"
#include "/repo/silk/decode_pitch.c"
#include "/repo/silk/pitch_est_tables.c"
VERIF_DEFINE_CELT_FATAL

/* every index the bitstream can carry: absolute 0..63 (3+3 bits), delta 0..40 (iCDF of 41 symbols) */
void h_gains_dequant(void)
{
   opus_int32 g[MAX_NB_SUBFR]; opus_int8 ind[MAX_NB_SUBFR]; opus_int8 prev = (opus_int8)nondet_int();
   int cond = nondet_int(), nb = nondet_int(), k;
   __CPROVER_assume(0 <= prev && prev < N_LEVELS_QGAIN && (cond == 0 || cond == 1) && (nb == 2 || nb == 4));
   for (k = 0; k < MAX_NB_SUBFR; k++) { ind[k] = (opus_int8)nondet_int();
      __CPROVER_assume(0 <= ind[k] && ind[k] <= ((k == 0 && !cond) ? N_LEVELS_QGAIN - 1 : MAX_DELTA_GAIN_QUANT - MIN_DELTA_GAIN_QUANT)); }
   k = nondet_int(); __CPROVER_assume(0 <= k && k < nb);
   silk_gains_dequant(g, ind, &prev, cond, nb);
   __CPROVER_assert(0 <= prev && prev <= N_LEVELS_QGAIN - 1, "gain index stays in 0..63 however deltas accumulate");
   __CPROVER_assert(g[k] >= silk_log2lin(OFFSET) && g[k] <= silk_log2lin(3967), "dequantised gain inside the quantiser's range");
   __CPROVER_assert(g[k] > 0, "dequantised gain positive");
   CANARY("after gains_dequant");
}

/* encoder/decoder agreement: dequantising the indices produced by the quantiser gives the same gains and state */
void h_gains_quant_dequant(void)
{
   opus_int32 g[MAX_NB_SUBFR], g2[MAX_NB_SUBFR]; opus_int8 ind[MAX_NB_SUBFR]; opus_int8 prev = (opus_int8)nondet_int(), prev2;
   int cond = nondet_int(), nb = nondet_int(), k;
   __CPROVER_assume(0 <= prev && prev < N_LEVELS_QGAIN && (cond == 0 || cond == 1) && (nb == 2 || nb == 4));
   for (k = 0; k < MAX_NB_SUBFR; k++) { g[k] = nondet_int(); __CPROVER_assume(g[k] >= 1); }
   prev2 = prev;
   k = nondet_int(); __CPROVER_assume(0 <= k && k < nb);
   silk_gains_quant(ind, g, &prev, cond, nb);
   __CPROVER_assert(0 <= ind[k] && ind[k] <= ((k == 0 && !cond) ? N_LEVELS_QGAIN - 1 : MAX_DELTA_GAIN_QUANT - MIN_DELTA_GAIN_QUANT), "quantiser emits only indices the bitstream can carry");
   silk_gains_dequant(g2, ind, &prev2, cond, nb);
   __CPROVER_assert(g2[k] == g[k], "decoder's gain equals the encoder's quantised gain");
   __CPROVER_assert(prev2 == prev, "decoder's gain state equals the encoder's");
   CANARY("after gains_quant/dequant");
}

void h_decode_pitch(void)
{
   opus_int16 lagIndex = nondet_short(); opus_int8 contour = (opus_int8)nondet_int(); int lags[4];
   int fs = nondet_int(), nb = nondet_int(), k, cbk;
   __CPROVER_assume((fs == 8 || fs == 12 || fs == 16) && (nb == 2 || nb == 4));
   cbk = fs == 8 ? (nb == 4 ? PE_NB_CBKS_STAGE2_EXT : PE_NB_CBKS_STAGE2_10MS) : (nb == 4 ? PE_NB_CBKS_STAGE3_MAX : PE_NB_CBKS_STAGE3_10MS);
   __CPROVER_assume(0 <= contour && contour < cbk);      /* length of the contour iCDF table selected by decode_indices */
   __CPROVER_assume(0 <= lagIndex);                       /* decode_indices builds it from two non-negative symbols */
   k = nondet_int(); __CPROVER_assume(0 <= k && k < nb);
   silk_decode_pitch(lagIndex, contour, lags, fs, nb);
   __CPROVER_assert(lags[k] >= PE_MIN_LAG_MS * fs && lags[k] <= PE_MAX_LAG_MS * fs, "pitch lag inside [2 ms, 18 ms] for the sampling rate");
   CANARY("after decode_pitch");
}
