/* C08/C05: range encoder — per-operation contracts enforced on the real bodies. */
#include "config.h"
#include "entcode_contracts.h"
#ifndef VERIF_BUILTIN_LIBC
#include "libc_frame.h"
#endif
#include "/repo/celt/entcode.c"
#include "/repo/celt/entenc.c"
VERIF_DEFINE_CELT_FATAL

void h_ec_write_byte(void)        { ec_enc *e; unsigned v; ec_write_byte(e, v); CANARY("after ec_write_byte"); }
void h_ec_write_byte_at_end(void) { ec_enc *e; unsigned v; ec_write_byte_at_end(e, v); CANARY("after ec_write_byte_at_end"); }
void h_ec_enc_carry_out(void)     { ec_enc *e; int c; ec_enc_carry_out(e, c); CANARY("after ec_enc_carry_out"); }
void h_ec_enc_normalize(void)     { ec_enc *e; ec_enc_normalize(e); CANARY("after ec_enc_normalize"); }
void h_ec_encode(void)            { ec_enc *e; unsigned fl, fh, ft; ec_encode(e, fl, fh, ft); CANARY("after ec_encode"); }
void h_ec_encode_bin(void)        { ec_enc *e; unsigned fl, fh, b; ec_encode_bin(e, fl, fh, b); CANARY("after ec_encode_bin"); }
void h_ec_enc_bit_logp(void)      { ec_enc *e; int v; unsigned l; ec_enc_bit_logp(e, v, l); CANARY("after ec_enc_bit_logp"); }
void h_ec_enc_icdf(void)          { ec_enc *e; int s; const unsigned char *t; unsigned b; ec_enc_icdf(e, s, t, b); CANARY("after ec_enc_icdf"); }
void h_ec_enc_icdf16(void)        { ec_enc *e; int s; const opus_uint16 *t; unsigned b; ec_enc_icdf16(e, s, t, b); CANARY("after ec_enc_icdf16"); }
void h_ec_enc_bits(void)          { ec_enc *e; opus_uint32 fl; unsigned b; ec_enc_bits(e, fl, b); CANARY("after ec_enc_bits"); }
void h_ec_enc_uint(void)          { ec_enc *e; opus_uint32 fl, ft; ec_enc_uint(e, fl, ft); CANARY("after ec_enc_uint"); }
void h_ec_enc_patch_initial_bits(void) { ec_enc *e; unsigned v, n; ec_enc_patch_initial_bits(e, v, n); CANARY("after ec_enc_patch_initial_bits"); }
void h_ec_enc_shrink(void)        { ec_enc *e; opus_uint32 n; ec_enc_shrink(e, n); CANARY("after ec_enc_shrink"); }
void h_ec_enc_done(void)          { ec_enc *e; ec_enc_done(e); CANARY("after ec_enc_done"); }
void h_ec_enc_init(void)          { ec_enc *e; unsigned char *b; opus_uint32 n; ec_enc_init(e, b, n); CANARY("after ec_enc_init"); }
