/* C12: OPUS_RESET_STATE of the MDCT-layer encoder / decoder (real opus_custom_encoder_ctl / opus_custom_decoder_ctl):
 * the reset clears exactly the bytes from the reset marker to the end of THIS object's state - the size of an object
 * with the channel count it was created with (get_size(mode, channels)), whatever it coded last - and re-establishes the
 * non-zero defaults of init.  memset is a recording stub (destination, value, length): loop-free apart from the energy
 * floor loop (<= 42 entries).  The mode is the real static 48 kHz mode. */
#include "config.h"
#include "common.h"
#include <stdlib.h>
static void *g_ms_dst; static size_t g_ms_n; static int g_ms_calls, g_ms_c;
void *memset(void *dst, int c, size_t n) { g_ms_calls++; g_ms_dst = dst; g_ms_n = n; g_ms_c = c; return dst; }
#include "/repo/celt/modes.c"
#ifdef VERIF_CELT_DEC
#include "/repo/celt/celt_decoder.c"
#else
#include "/repo/celt/celt_encoder.c"
#endif
VERIF_DEFINE_CELT_FATAL
#ifndef VERIF_CH
#define VERIF_CH 2
#endif

#ifndef VERIF_CELT_DEC
void h_celt_enc_reset(void)
{
   int channels = VERIF_CH, sc = nondet_int(), size, ret, k = nondet_int(), err; CELTEncoder *st; celt_glog *oldLogE, *oldLogE2;
   const CELTMode *mode = opus_custom_mode_create(48000, 960, &err);
   __CPROVER_assume(mode != NULL);
   __CPROVER_assume(channels == VERIF_CH && 1 <= sc && sc <= channels);      /* one group per channel count: the state size is then a constant */
   size = opus_custom_encoder_get_size(mode, channels);
   st = malloc(size); __CPROVER_assume(st != NULL);
   st->mode = mode; st->channels = channels; st->stream_channels = sc;        /* everything else: arbitrary (fresh heap object) */
   ret = opus_custom_encoder_ctl(st, OPUS_RESET_STATE);
   __CPROVER_assert(ret == OPUS_OK, "RESET_STATE succeeds");
   __CPROVER_assert(g_ms_calls == 1 && g_ms_c == 0 && g_ms_dst == (void *)&st->ENCODER_RESET_START, "one clear, of zeros, starting at the reset marker");
   __CPROVER_assert((char *)g_ms_dst + g_ms_n == (char *)st + size, "the clear extends exactly to the end of this encoder's state (created with `channels` channels), whatever it coded last");
   __CPROVER_assert(st->mode == mode && st->channels == channels && st->stream_channels == sc, "the configuration in front of the marker is kept");
   __CPROVER_assert(st->vbr_offset == 0 && st->delayedIntra == 1 && st->spread_decision == SPREAD_NORMAL && st->tonal_average == 256 && st->hf_average == 0 && st->tapset_decision == 0,
                    "the non-zero defaults of init are re-established");
   oldLogE = (celt_glog *)(st->in_mem + channels * (mode->overlap + COMBFILTER_MAXPERIOD)) + channels * mode->nbEBands; oldLogE2 = oldLogE + channels * mode->nbEBands;
   __CPROVER_assume(0 <= k && k < channels * mode->nbEBands);
   __CPROVER_assert(oldLogE[k] == -GCONST(28.f) && oldLogE2[k] == -GCONST(28.f), "the energy history of every band of every channel restarts at the -28 floor");
   CANARY("after CELT encoder reset");
}
#else
void h_celt_dec_reset(void)
{
   int channels = VERIF_CH, sc = nondet_int(), size, ret, k = nondet_int(), err; CELTDecoder *st; celt_glog *oldLogE, *oldLogE2;
   const CELTMode *mode = opus_custom_mode_create(48000, 960, &err);
   __CPROVER_assume(mode != NULL);
   __CPROVER_assume(channels == VERIF_CH && (sc == 1 || sc == 2));
   size = opus_custom_decoder_get_size(mode, channels);
   st = malloc(size); __CPROVER_assume(st != NULL);
   st->mode = mode; st->channels = channels; st->stream_channels = sc; st->overlap = mode->overlap;
   ret = opus_custom_decoder_ctl(st, OPUS_RESET_STATE);
   __CPROVER_assert(ret == OPUS_OK, "RESET_STATE succeeds");
   __CPROVER_assert(g_ms_calls == 1 && g_ms_c == 0 && g_ms_dst == (void *)&st->DECODER_RESET_START, "one clear, of zeros, starting at the reset marker");
   __CPROVER_assert((char *)g_ms_dst + g_ms_n == (char *)st + size, "the clear extends exactly to the end of this decoder's state (created with `channels` channels), whatever the last packet's channel count");
   __CPROVER_assert(st->mode == mode && st->channels == channels && st->stream_channels == sc && st->skip_plc == 1, "configuration kept, concealment disabled until a frame is decoded");
   oldLogE = (celt_glog *)((opus_val16 *)(st->_decode_mem + (DECODE_BUFFER_SIZE + mode->overlap) * channels) + channels * CELT_LPC_ORDER) + 2 * mode->nbEBands; oldLogE2 = oldLogE + 2 * mode->nbEBands;
   __CPROVER_assume(0 <= k && k < 2 * mode->nbEBands);
   __CPROVER_assert(oldLogE[k] == -GCONST(28.f) && oldLogE2[k] == -GCONST(28.f), "the energy history restarts at the -28 floor");
   CANARY("after CELT decoder reset");
}
#endif
