#!/usr/bin/env python3
"""check.py <property-id> [--tier quick|thorough] [--group NAME]... [--record] [--jobs N]

Runs every proof group registered for the property against /repo's current working tree.
exit 0: every obligation discharged, canaries fired, nothing void.
exit 1: 'VIOLATION property=<id> replay=<path>' -- an obligation that is discharged on the
        unchanged tree (expected/<id>/<group>.json) was refuted by the solver.
exit 2: undecided (timeout, build/instrumentation error, void run, unknown obligation failed).
"""
import argparse
import concurrent.futures as cf
import importlib
import json
import os
import sys
import time

HERE = os.path.dirname(os.path.abspath(__file__))
sys.path.insert(0, HERE)
from vlib import pipeline  # noqa: E402
from vlib import replay as replay_mod  # noqa: E402


def okey(o):
    return '%s|%s|%s' % (o['fn'], o['cls'], o['desc'])


def load_groups(prop):
    mod = importlib.import_module('proofs.reg_' + prop)
    return mod.GROUPS, getattr(mod, 'META', {})


def load_known():
    out = []
    p = os.path.join(HERE, 'known_findings.txt')
    if os.path.exists(p):
        for l in open(p):
            l = l.strip()
            if not l or l.startswith('#') or l.startswith('fixed:'):
                continue
            out.append(l)
    return out


def expected_path(prop, gname):
    return os.path.join(HERE, 'expected', prop, gname + '.json')


def main():
    ap = argparse.ArgumentParser()
    ap.add_argument('prop')
    ap.add_argument('--tier', default=os.environ.get('VERIF_TIER', 'quick'))
    ap.add_argument('--group', action='append')
    ap.add_argument('--record', action='store_true', help='write expected/ files from a green run')
    ap.add_argument('--jobs', type=int, default=int(os.environ.get('VERIF_JOBS', '16')))
    ap.add_argument('--keep', action='store_true')
    ap.add_argument('--no-evidence', action='store_true', help='do not rewrite evidence/<id>.json (seeded-change runs)')
    a = ap.parse_args()
    prop = a.prop
    seed = int(os.environ.get('VERIF_SEED', '0') or 0)
    t0 = time.time()
    groups, meta = load_groups(prop)
    sel = []
    for g in groups:
        g.setdefault('prop', prop)
        if a.group:
            if g['name'] in a.group:
                sel.append(g)
        elif g.get('tier', 'quick') == 'off':
            continue
        elif a.tier == 'thorough' or g.get('tier', 'quick') == 'quick':
            sel.append(g)
    if not sel:
        print('no groups selected')
        return 2
    # heavy groups first
    sel.sort(key=lambda g: -g.get('timeout', 300))
    results = {}
    # memory-aware admission: a group declares the memory its solver may use (mem_gb, default 12); groups are admitted while the
    # declared sum stays within the budget (VERIF_MEM_GB, default 48), so that parallel solvers are not killed by the ulimit
    import threading
    budget = float(os.environ.get('VERIF_MEM_GB', '48'))
    cond = threading.Condition()
    used = [0.0]
    def run_admitted(g):
        need = min(float(g.get('mem_gb', 12)) * float(g.get('mem_share', 0.6)) * int(g.get('shards', 1)), budget)   # most groups peak well below their limit
        with cond:
            while used[0] + need > budget and used[0] > 0:
                cond.wait()
            used[0] += need
        try:
            return pipeline.run_group(g, a.tier, a.keep)
        finally:
            with cond:
                used[0] -= need
                cond.notify_all()
    with cf.ThreadPoolExecutor(max_workers=a.jobs) as ex:
        futs = {ex.submit(run_admitted, g): g for g in sel}
        for f in cf.as_completed(futs):
            g = futs[f]
            try:
                r = f.result()
            except Exception as e:  # driver bug: undecided, never a violation
                r = {'name': g['name'], 'prop': prop, 'cls': g['cls'], 'status': 'error', 'detail': repr(e),
                     'obligations': [], 'canaries': [], 'solver_s': 0, 'wall_s': 0, 'cmds': [], 'replaced': [],
                     'enforced': [], 'unwind_bounds': {}, 'bounds': '', 'backend': ''}
            results[g['name']] = r
            nob = len(r['obligations'])
            nfail = sum(1 for o in r['obligations'] if o['status'] == 'FAILURE')
            print('[%s] %-34s %-5s %s obligations=%d failed=%d canaries=%d/%d solver=%.1fs %s' % (
                prop, g['name'], g['cls'], r['status'], nob, nfail,
                sum(1 for c in r['canaries'] if c['status'] == 'FAILURE'), len(r['canaries']), r['solver_s'],
                (r['detail'][:300].replace('\n', ' ') if r['status'] != 'done' else '')), flush=True)

    known = load_known()
    undecided, violations, known_hits, unexplored = [], [], [], []
    proved_obl = proved_dis = bounded_obl = bounded_dis = 0
    samples, group_ev, trusted, assumptions, fns = [], [], set(), set(), set()
    for g in sel:
        r = results[g['name']]
        ge = {'group': g['name'], 'class': g['cls'], 'status': r['status'], 'backend': r.get('backend', ''),
              'solver_s': r['solver_s'], 'unwind_bounds': r.get('unwind_bounds', {}),
              'input_bounds': g.get('bounds', ''), 'enforced': r.get('enforced', []),
              'replaced_by_contract': r.get('replaced', []), 'obligations': len(r['obligations']),
              'what': g.get('what', '')}
        group_ev.append(ge)
        for f in r.get('enforced', []):
            fns.add(f)
        for f in g.get('functions', []):
            fns.add(f)
        for f in r.get('replaced', []):
            if f not in meta.get('enforced_elsewhere', []):
                trusted.add('assumed contract of %s (replaced at call sites in %s)' % (f, g['name']))
            else:
                assumptions.add('contract of %s used at call sites in %s; the same text is enforced on its body in another group' % (f, g['name']))
        for nb in r.get('no_body', []):
            trusted.add('bodiless callee %s (nondet result) in %s' % (nb, g['name']))
        for t in g.get('trusted', []):
            trusted.add(t)
        for t in g.get('assumptions', []):
            assumptions.add(t)
        if r['status'] != 'done':
            resource = r['status'] == 'timeout' or (r['status'] == 'solver_error' and 'memory' in r['detail']) or \
                       (r['status'] == 'void' and 'canary run gave no result' in r['detail'])
            if resource and g.get('tier', 'quick') == 'thorough':
                # a thorough-only group that ran out of time or memory explored nothing: reported, not a verdict on the property
                unexplored.append('%s: %s (%s)' % (g['name'], r['status'], r['detail'][:120].replace('\n', ' ')))
                ge['status'] = 'unexplored: ' + r['status']
            else:
                undecided.append('%s: %s %s' % (g['name'], r['status'], r['detail'][:500]))
            continue
        want = g.get('expect_canaries', 1)
        fired = sum(1 for c in r['canaries'] if c['status'] == 'FAILURE')
        if fired < want or fired < len(r['canaries']):
            undecided.append('%s: void run, canaries fired %d of %d (expected >= %d)' % (g['name'], fired, len(r['canaries']), want))
            ge['status'] = 'void'
            continue
        if not r['obligations']:
            undecided.append('%s: void run, zero obligations' % g['name'])
            continue
        import re as _re
        ign = g.get('ignore', [])
        excluded = [o for o in r['obligations'] if any(_re.search(rx, o['desc']) for rx, _why in ign)]
        if excluded:
            ge['excluded_tool_artifacts'] = [{'obligation': o['id'], 'description': o['desc'][:160], 'status': o['status']} for o in excluded[:8]]
            for rx, why in ign:
                assumptions.add('%s: obligations matching /%s/ are excluded (not counted): %s' % (g['name'], rx, why))
        r['obligations'] = [o for o in r['obligations'] if o not in excluded]
        user_obl = [o for o in r['obligations'] if not o['fn'].startswith(pipeline.LIB_PREFIXES)]
        exp = None
        ep = expected_path(prop, g['name'])
        if os.path.exists(ep):
            exp = json.load(open(ep))
        cur_keys = {}
        for o in user_obl:
            cur_keys[okey(o)] = cur_keys.get(okey(o), 0) + 1
        failed = [o for o in r['obligations'] if o['status'] == 'FAILURE']
        not_counted = set()
        unknown = [o for o in r['obligations'] if o['status'] not in ('SUCCESS', 'FAILURE')]
        if unknown:
            msg = '%s: %d obligations have status %s (solver error / out of memory): undecided' % (g['name'], len(unknown), unknown[0]['status'])
            if g.get('tier', 'quick') == 'thorough' and not failed:
                unexplored.append(msg)
                ge['status'] = 'unexplored: solver error / out of memory'
                continue
            undecided.append(msg)
        if exp is not None and not a.record:
            # contract-level obligations recorded on the unchanged tree must still be generated
            must = [k for k in exp['keys'] if exp['keys'][k].get('must')]
            lost = [k for k in must if k not in cur_keys]
            if lost:
                undecided.append('%s: void run, contract obligations no longer generated: %s' % (g['name'], lost[:5]))
                continue
            if len(user_obl) < exp['count'] * 0.5:
                undecided.append('%s: void run, only %d obligations (unchanged tree: %d)' % (g['name'], len(user_obl), exp['count']))
                continue
        for o in failed:
            k = okey(o)
            if g.get('focus') and o['cls'] == 'assertion' and not any(_re.search(rx, o['desc']) for rx in g['focus']):
                # group shared with another property: assertions outside this property's focus are decided (and reported) there
                ge.setdefault('out_of_focus_failures', []).append(o['desc'][:120])
                not_counted.add(id(o))
                continue
            tagk = 'property=%s group=%s obligation=%s' % (prop, g['name'], k)
            if any(tagk == kn for kn in known):
                known_hits.append(tagk)
                not_counted.add(id(o))        # a listed finding is reported as such, it is neither discharged nor counted as an obligation of this run
                continue
            if o['fn'].startswith(pipeline.LIB_PREFIXES) or o['cls'] == 'unwind':
                undecided.append('%s: infrastructure obligation failed: %s %s' % (g['name'], o['id'], o['desc']))
            elif exp is None or a.record:
                undecided.append('%s: obligation failed and no expected list exists: %s %s' % (g['name'], o['id'], o['desc']))
            elif k in exp['keys']:
                violations.append((g, r, o))
            else:
                violations.append((g, r, o)) if g.get('new_failures_are_violations') else \
                    undecided.append('%s: an obligation unknown on the unchanged tree failed: %s %s' % (g['name'], o['id'], o['desc']))
        user_obl = [o for o in user_obl if id(o) not in not_counted]
        ok = [o for o in user_obl if o['status'] == 'SUCCESS']
        if g['cls'] == 'B':
            bounded_obl += len(user_obl)
            bounded_dis += len(ok)
        else:
            proved_obl += len(user_obl)
            proved_dis += len(ok)
        for o in user_obl:
            if o['cls'] in ('postcondition', 'assertion', 'loop_invariant_step', 'assigns', 'precondition') and len(samples) < 12 and \
                    not any(s['group'] == g['name'] and s['class'] == o['cls'] for s in samples):
                samples.append({'group': g['name'], 'obligation': o['id'], 'class': o['cls'], 'description': o['desc'][:200], 'status': o['status']})
        if a.record and not unknown and all(('property=%s group=%s obligation=%s' % (prop, g['name'], okey(o))) in known for o in failed):
            os.makedirs(os.path.dirname(ep), exist_ok=True)
            keys = {}
            for o in user_obl:
                k = okey(o)
                e = keys.setdefault(k, {'n': 0})
                e['n'] += 1
                if o['cls'] in ('postcondition', 'loop_invariant_base', 'loop_invariant_step', 'loop_decreases',
                                'loop_step_unwinding', 'precondition') or \
                        (o['cls'] == 'assertion' and not o['desc'].startswith(('Check', 'unwinding'))):
                    e['must'] = True
            json.dump({'group': g['name'], 'count': len(user_obl), 'keys': keys}, open(ep, 'w'), indent=0, sort_keys=True)

    # replay for violations
    vio_lines = []
    seen = set()
    searched = set()
    for g, r, o in violations:
        key = (g['name'], okey(o))
        if key in seen:
            continue
        seen.add(key)
        # one bounded input search per group (each may take minutes); further violations of the group keep the verifier's trace only
        path, found = replay_mod.make_replay(prop, g, r, o, meta, search=(g['name'] not in searched))
        searched.add(g['name'])
        vio_lines.append('VIOLATION property=%s replay=%s%s' % (prop, path, '' if found else ' no-failing-input-found'))

    wall = time.time() - t0
    level_proof = proved_obl > 0
    ev = {
        'property_id': prop, 'tier': a.tier, 'seed': seed, 'level': 'proof' if proved_obl > 0 else 'other',
        'coverage': {
            'obligations': proved_obl, 'discharged': proved_dis,
            'checker_cmd': 'goto-cc <flags> --function h_<fn> proofs/<tu>.c; goto-instrument --unwindset <contract-less loops> --unwinding-assertions; '
                           'goto-instrument --dfcc h_<fn> --enforce-contract[-rec] f --replace-call-with-contract g --apply-loop-contracts; '
                           'cbmc --bounds-check --pointer-check --signed-overflow-check --div-by-zero-check --pointer-overflow-check --json-ui (CBMC 6.11.0, CaDiCaL); plain-cbmc groups: goto-cc; [goto-instrument --replace-calls f:g]; cbmc --unwind N --unwinding-assertions',
            'trusted_base': sorted(trusted) + ['CBMC 6.11.0 front end, DFCC instrumentation and the CaDiCaL SAT solver', 'LP64, two\'s complement, arithmetic >> on negative ints, IEEE-754 binary32 RNE'],
            'functions_under_contract': sorted(fns),
            'groups': group_ev,
            'bounded_obligations': bounded_obl, 'bounded_discharged': bounded_dis,
            'bounded_note': 'groups of class B are bounded stand-ins: counted here only, never under obligations/discharged',
            'samples': samples,
            'undecided': undecided,
            'unexplored_thorough_groups': unexplored,
            'known_findings_matched': known_hits,
            'explanation': meta.get('explanation') or ('contract-based deductive verification with CBMC: %d obligations in unbounded/finite-complete groups (classes P/F), '
                            '%d in bounded stand-in groups (class B, never counted as proved)' % (proved_obl, bounded_obl)),
        },
        'assumptions': sorted(assumptions) + meta.get('assumptions', []),
        'wall_s': round(wall, 1),
        'violations': len(vio_lines),
    }
    if not a.group and not a.no_evidence:
        os.makedirs(os.path.join(HERE, 'evidence'), exist_ok=True)
        json.dump(ev, open(os.path.join(HERE, 'evidence', prop + '.json'), 'w'), indent=1)
    for k in known_hits:
        print('KNOWN-FINDING: %s' % k)
    for u in unexplored:
        print('UNEXPLORED (thorough-only group out of time/memory) %s' % u)
    print('[%s] tier=%s groups=%d proved %d/%d bounded %d/%d wall=%.0fs' % (prop, a.tier, len(sel), proved_dis, proved_obl, bounded_dis, bounded_obl, wall))
    if vio_lines:
        for l in vio_lines:
            print(l)
        return 1
    if undecided:
        for u in undecided:
            print('UNDECIDED %s' % u)
        return 2
    return 0


if __name__ == '__main__':
    sys.exit(main())
