"""Counterexample search + native replay (DESIGN.md 1.4).

search_and_replay(): given a refuted obligation, look for a concrete failing input with a bounded
H-style harness (plain cbmc, loops unwound, no loop contracts: so every value in the trace is a real
program value, not a havocked one), then run that input through the same harness compiled natively by
gcc with ASan/UBSan against the real sources.  Only a native reproduction counts.
"""
import json
import os
import re
import shutil
import subprocess

from . import pipeline

VERIF = pipeline.VERIF


def _bits_to_int(bits, signed=True):
    v = int(bits, 2)
    if signed and bits[0] == '1':
        v -= 1 << len(bits)
    return v


def nondet_values(trace):
    """Values logged by the VERIF_CEX_SEARCH build into verif_nd[] (call order)."""
    vals, n = {}, 0
    for st in trace or []:
        if st.get('stepType') != 'assignment':
            continue
        lhs = st.get('lhs', '')
        m = re.match(r'^verif_nd\[(\d+)l*\]$', lhs)
        v = st.get('value', {})
        if m:
            b = v.get('binary')
            vals[int(m.group(1))] = _bits_to_int(b) if b else int(v.get('data', 0))
        elif lhs == 'verif_nd_n':
            try:
                n = int(v.get('data', 0))
            except Exception:
                pass
    return [vals.get(i, 0) for i in range(n)]


def search_and_replay(prop, g, o, cex, inputs):
    wd = os.path.join(pipeline.WORK, prop, g['name'], 'cex')
    shutil.rmtree(wd, ignore_errors=True)
    os.makedirs(wd)
    gen = os.path.join(wd, 'gen')
    pipeline.make_gen(gen)
    for pg in g.get('pregen', []):
        pipeline.run(['python3', os.path.join(VERIF, pg), gen], 120)
    spec = dict(cex)
    if spec.get('self'):
        spec.setdefault('tu', g['tu'])
        spec.setdefault('entry', g['entry'])
        spec.setdefault('defines', g.get('defines', []))
        spec.setdefault('unwind', max(g.get('unwind', 1), 1))
    tu = pipeline.localized_tu(spec['tu'], wd)
    out = {'cex_harness': spec['tu'] + ':' + spec['entry'], 'bounds': spec.get('bounds', 'loops unwound %d times' % spec.get('unwind', 1)),
           'reproduced': False}
    a = os.path.join(wd, 'cex.gb')
    defs = pipeline.BASE_DEFS + list(spec.get('defines', [])) + ['-DVERIF_CEX_SEARCH']
    rc, txt, _ = pipeline.run(['goto-cc'] + defs + pipeline.incs(gen) + ['--function', spec['entry'], tu, '-o', a], 300)
    if rc != 0:
        out['search'] = 'cex harness does not build: ' + txt[-400:]
        return out
    cmd = ['cbmc', a] + pipeline.CBMC_CHECKS + ['--object-bits', '10', '--sat-solver', 'cadical', '--drop-unused-functions',
                                                '--unwind', str(spec.get('unwind', 1)), '--no-unwinding-assertions', '--stop-on-fail', '--trace', '--json-ui']
    jp = os.path.join(wd, 'cex.json')
    rc, err, dt = pipeline.run(cmd, spec.get('timeout', 600), spec.get('mem_gb', 16), stdout_path=jp)
    out['search_cmd'] = ' '.join(cmd)
    out['search_s'] = round(dt, 1)
    trace, failed = None, None
    try:
        data = json.load(open(jp))
        cands = []
        for it in data:
            if isinstance(it, dict) and 'result' in it:
                cands += it['result']
            elif isinstance(it, dict) and 'trace' in it and 'property' in it:   # --stop-on-fail prints the failure at top level
                cands.append(it)
        for r in cands:
            if r.get('status', 'FAILURE').upper().startswith('FAIL') and 'trace' in r and not r.get('description', '').startswith('CANARY'):
                trace, failed = r['trace'], r
                break
    except Exception as e:
        out['search'] = 'no result (%s, rc=%s)' % (e, rc)
        return out
    if trace is None:
        out['search'] = 'bounded search found no failing input (rc=%s)' % rc
        return out
    vals = nondet_values(trace)
    out['failing_obligation_in_search'] = {'id': failed['property'], 'description': failed.get('description')}
    out['nondet_values'] = vals[:400]
    vf = os.path.join(wd, 'inputs.txt')
    open(vf, 'w').write('\n'.join(str(v) for v in vals) + '\n')
    # native build: real sources, hooks off
    wrap = os.path.join(wd, 'native_main.c')
    open(wrap, 'w').write('#define VERIF_NATIVE 1\n#include "%s"\nint main(int argc, char **argv) { if (argc > 1) verif_load(argv[1]); %s(); printf("NATIVE-OK\\n"); return 0; }\n' % (tu, spec['entry']))
    exe = os.path.join(wd, 'native_replay')
    ndefs = [d for d in defs if d != '-DOPUS_VERIF']
    gcc = ['gcc', '-O1', '-g', '-w', '-fsanitize=address,undefined', '-fno-sanitize-recover=all', '-std=gnu99', '-ffunction-sections', '-fdata-sections', '-Wl,--gc-sections'] + ndefs + \
          pipeline.incs(gen) + [wrap, '-o', exe, '-lm']
    rc, txt, _ = pipeline.run(gcc, 300, 16)
    if rc != 0:
        out['native'] = 'native build failed: ' + txt[-600:]
        return out
    try:
        p = subprocess.run([exe, vf], capture_output=True, text=True, timeout=60,
                           env=dict(os.environ, ASAN_OPTIONS='detect_leaks=0'))
        txt = (p.stdout + p.stderr)[-1500:]
        out['native_exit'] = p.returncode
        out['native_output'] = txt
        out['reproduced'] = p.returncode != 0 and p.returncode != 77 and ('NATIVE-VIOLATION' in txt or 'Sanitizer' in txt or 'runtime error' in txt)
    except subprocess.TimeoutExpired:
        out['native'] = 'native run timed out (possible non-termination)'
        out['reproduced'] = False
    out['native_cmd'] = ' '.join(gcc) + ' && ' + exe + ' ' + vf
    # keep the inputs next to the replay file
    keep = os.path.join(VERIF, 'out', 'replay', prop, g['name'] + '.inputs.txt')
    os.makedirs(os.path.dirname(keep), exist_ok=True)
    shutil.copy(vf, keep)
    out['inputs_file'] = keep
    return out
