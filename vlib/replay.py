"""Counterexample extraction and native replay (DESIGN.md 1.4).

For a refuted obligation:
 1. re-run cbmc on the kept instrumented binary for just that property with --trace and keep
    the assignments to harness variables (and the `verif_snap_*` snapshot globals);
 2. if the group names a native replay harness (`cex` key), search for a concrete failing
    input with it (an H-style harness over the same real function, bounded input size, the
    same predicates asserted) and run that input against the real code compiled by gcc with
    ASan/UBSan.  Only a native reproduction makes the line lose `no-failing-input-found`.
"""
import json
import os
import re
import subprocess

from . import pipeline

VERIF = pipeline.VERIF
OUT = os.path.join(VERIF, 'out', 'replay')


def _trace_for(r, o, g):
    wd = r.get('workdir')
    gb = None
    for cand in ('b.gb', 'c.gb', 'a.gb'):
        p = os.path.join(wd, cand)
        if os.path.exists(p):
            gb = p
            break
    if gb is None:
        return None, 'instrumented binary not kept'
    cmd = [x for x in pipeline.cbmc_cmd(g, gb, trace=True, props=[o['id']])]
    jp = os.path.join(wd, 'trace.json')
    rc, err, dt = pipeline.run(cmd, g.get('timeout', 300), g.get('mem_gb', 12), stdout_path=jp)
    try:
        data = json.load(open(jp))
    except Exception as e:
        return None, 'trace run unparsable: %s' % e
    for it in data:
        if isinstance(it, dict) and 'result' in it:
            for res in it['result']:
                if res.get('property') == o['id'] and 'trace' in res:
                    return res['trace'], ' '.join(cmd)
    return None, 'no trace in output'


def _harness_assignments(trace, entry):
    """Assignments made in the harness function or to verif_* globals: the inputs."""
    vals = {}
    order = []
    for st in trace or []:
        if st.get('stepType') != 'assignment' or st.get('hidden'):
            continue
        lhs = st.get('lhs', '')
        fn = st.get('sourceLocation', {}).get('function', '')
        if not (lhs.startswith('verif_') or fn == entry):
            continue
        v = st.get('value', {})
        val = v.get('data', v.get('name'))
        if isinstance(val, str) and len(val) > 200:
            val = val[:200] + '...'
        if lhs not in vals:
            order.append(lhs)
        vals[lhs] = val
    return {k: vals[k] for k in order}


def make_replay(prop, g, r, o, meta, search=True):
    os.makedirs(os.path.join(OUT, prop), exist_ok=True)
    safe = re.sub(r'[^A-Za-z0-9_.-]', '_', o['id'])
    path = os.path.join(OUT, prop, '%s.%s.json' % (g['name'], safe))
    trace, how = _trace_for(r, o, g)
    inputs = _harness_assignments(trace, g['entry']) if trace else {}
    rep = {
        'property': prop, 'group': g['name'], 'class': g['cls'],
        'failed_obligation': {'id': o['id'], 'function': o['fn'], 'kind': o['cls'], 'description': o['desc'],
                              'file': o['file'], 'line': o['line'], 'solver_status': o['status']},
        'verifier': 'cbmc 6.11.0 (SAT counterexample exists: the obligation is refuted, not merely undischarged)',
        'verifier_cmds': r.get('cmds', []),
        'trace_cmd': how,
        'harness_inputs_from_trace': inputs,
        'native_replay': None,
    }
    found = False
    cex = g['cex'] if 'cex' in g else meta.get('cex')
    if cex and not search:
        rep['native_replay'] = {'skipped': 'the bounded input search was run once for this group, on the first refuted obligation (see its replay file)'}
    elif cex:
        try:
            from . import native
            nat = native.search_and_replay(prop, g, o, cex, inputs)
            rep['native_replay'] = nat
            found = bool(nat and nat.get('reproduced'))
        except Exception as e:  # replay machinery failure never hides the violation
            rep['native_replay'] = {'error': repr(e)}
    if trace:
        # keep a compact trace (last 60 visible assignments) as the verifier's output
        comp = []
        for st in trace:
            if st.get('stepType') in ('assignment', 'failure') and not st.get('hidden'):
                v = st.get('value', {})
                comp.append({'step': st.get('stepType'), 'lhs': st.get('lhs'), 'value': v.get('data', v.get('name')) if isinstance(v, dict) else None,
                             'function': st.get('sourceLocation', {}).get('function'), 'line': st.get('sourceLocation', {}).get('line'),
                             'reason': st.get('reason')})
        rep['verifier_trace_tail'] = comp[-60:]
    json.dump(rep, open(path, 'w'), indent=1, default=str)
    return path, found
