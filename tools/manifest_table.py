import subprocess
HOOK_COMMITS = subprocess.run(['git','-C','/repo','log','--format=%H %s','--grep=verif hook'],capture_output=True,text=True).stdout.strip().split('\n')
CLAIMED = {
 'C06': dict(
   text='Function contracts on the real packet parser and TOC helpers are enforced by CBMC for every byte string of any length (loop contracts, no unwinding bound); acceptance-iff-RFC is a bounded stand-in.',
   note='Trusted: CBMC/DFCC/MiniSat, machine model LP64. Bounded groups are labelled class B in the evidence and not counted as proved.'),
 'C18': dict(
   text='silk_NLSF_stabilize / silk_NLSF_decode with the real codebook tables, silk_gains_dequant, silk_gains_quant+dequant agreement and silk_decode_pitch are proved for every index value the bitstream can carry (all loops constant-bounded by the codec order / sub-frame count, or under a loop contract).',
   note='Filter stability (silk_NLSF2A / silk_LPC_inverse_pred_gain) is not covered. Trusted: CBMC/DFCC/CaDiCaL, LP64.'),
 'C20': dict(
   text='Exact transition function of decide_dtx_mode enforced as a contract; the 200 ms / 400 ms bounds and the in-DTX predicate follow from an inductive invariant over a ghost run length, so they hold for every call history.',
   note='Emission inside opus_encode_native (that the 1-byte packet is produced exactly when the automaton says so), the SILK noSpeechCounter path and decoder-side CNG are not covered.'),
}
_NR = 'not reached yet in this build-out (planned in DESIGN.md); no check is registered so nothing is claimed'
NOT_REACHED = {p: _NR for p in ['C01','C05','C07','C08','C09','C10','C11','C12','C13','C16','C17','C19']}
