HOOK_COMMITS = []
CLAIMED = {
 'C06': dict(
   text='Function contracts on the real packet parser and TOC helpers are enforced by CBMC for every byte string of any length (loop contracts, no unwinding bound); acceptance-iff-RFC is a bounded stand-in.',
   note='Trusted: CBMC/DFCC/MiniSat, machine model LP64. Bounded groups are labelled class B in the evidence and not counted as proved.'),
}
_NR = 'not reached yet in this build-out (planned in DESIGN.md); no check is registered so nothing is claimed'
NOT_REACHED = {p: _NR for p in ['C01','C05','C07','C08','C09','C10','C11','C12','C13','C16','C17','C18','C19','C20']}
