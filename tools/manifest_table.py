import subprocess
HOOK_COMMITS = subprocess.run(['git','-C','/repo','log','--format=%H %s','--grep=verif hook'],capture_output=True,text=True).stdout.strip().split('\n')
CLAIMED = {
 'C01': dict(
   text='opus_decode_native (real body) is proved, at each of the five sampling rates, to return a documented error code or a sample count in (0, frame_size], to keep the decoder invariant, to reject bad decode_fec / non-2.5-ms PLC durations, and to set last_packet_duration; recursion unwound, PLC and frame loops under loop contracts. The framing layer it relies on is C06, the range-decoder reads C08, the SILK clamps C18.',
   note='PARTIAL. Trusted: the ASSUMED contract of opus_decode_frame (400 lines of float DSP glue, not verified), a parser stub carrying exactly the clauses enforced under C06, a frame-only stub of opus_pcm_soft_clip. Not covered: CELT/SILK synthesis, finiteness of samples, multistream/projection decode, opus_decode/opus_decode24 wrappers, whole-decoder termination.'),
 'C05': dict(
   text='The range encoder output layer (ec_write_byte, ec_write_byte_at_end, ec_enc_carry_out, ec_enc_bits, ec_enc_shrink, ec_enc_done) is proved never to write outside buf[0..storage) and to set the error flag instead; the repacketizer never exceeds maxlen (bounded check).',
   note='PARTIAL. The CBR byte count, OPUS_BITRATE_MAX fill, CVBR average and the multistream rate split are inline arithmetic inside opus_encode_native / celt_encode_with_ec with no callee boundary to hang a contract on: not covered. Repacketizer part is a bounded stand-in (class B).'),
 'C06': dict(
   text='Contracts on the real parser and size helpers: parse_size and the full E1-E9 contract of opus_packet_parse_impl are enforced for TOC codes 0-2 and 1-byte code-3 packets for every length (no bound); code 3 is proved in the thorough tier per sub-case (padding chain, CBR by count range, VBR with ghost prefix sums). Acceptance-iff-RFC against an independent transcription of RFC 6716 section 3 / Appendix B is a bounded stand-in (<= 8 bytes quick).',
   note='Quick tier: P for codes 0-2, B for code 3 and for over-rejection. Header helpers other than samples_per_frame/nb_frames are not under contract yet. Trusted: CBMC/DFCC/CaDiCaL, LP64.'),
 'C07': dict(category='other', technique='bounded stand-in (plain CBMC, loops unwound) of the contract clauses on the real code; no unbounded group yet',
   text='Bounded check on the real repacketizer, parser and extension code: two symbolic packets are concatenated, emitted and re-parsed; acceptance conditions, byte-for-byte frame preservation, maxlen handling, pad/unpad length and idempotence are asserted for every input inside the bound.',
   note='Class B only (2 packets of <= 5 bytes, <= 3 frames each): a bounded stand-in, not a proof. The representation-invariant contracts of cat/out_range (P) are not built. Decoded-audio equality after padding is out of reach.'),
 'C08': dict(
   text='Per-operation contracts of the range coder enforced on the real bodies (state invariant incl. "low+range does not wrap", frame, byte accounting of the carry run), enc/dec lock-step of rng / bit counts on the real pairs (bit_logp, raw bits, power-of-two tables per table width), ec_tell_frac == reference recurrence; symbol-for-symbol inversion on 2-operation sequences is a bounded stand-in.',
   note='NOT discharged and reported as assumed where used: the range facts of ec_encode / ec_encode_bin / ec_enc_icdf(16) / ec_dec_icdf (1 <= r*(fh-fl) <= rng needs multiplication/division monotonicity; no SAT result within an hour) and lock-step for symbolic ft. storage >= 1 and <= 2^30 assumed. Inversion over long sequences is bounded (2 ops quick, 3 thorough).'),
 'C09': dict(
   text='The duration and argument rules of PLC/FEC in opus_decode_native: null packet or decode_fec with a frame_size that is a multiple of 2.5 ms returns exactly frame_size (or a decoder error) and records it; other durations are rejected with OPUS_BAD_ARG; a failed PLC restores last_packet_duration.',
   note='PARTIAL, same proof units and trusted base as C01 (ASSUMED opus_decode_frame contract). Audio-quality clauses (bounded level, decay, FEC accuracy, re-convergence) are not expressible as contracts here.'),
 'C10': dict(
   text='validate_layout accepts exactly the well-formed layouts; get_left/right/mono_channel return the first matching channel after prev (loops bounded by the 255-channel limit, fully unwound, layout symbolic).',
   note='PARTIAL (class F for the helpers). Multistream packet walk, per-stream state layout, routing theorem, surround tables and the demixing-matrix lemma are not built.'),
 'C11': dict(
   text='Every SET/GET pair of opus_encoder_ctl and opus_decoder_ctl listed in the evidence is proved on a fully symbolic state for all 2^32 argument values: legal => OK, read back, no other setting changes (documented couplings excepted); illegal => OPUS_BAD_ARG and nothing changes; null pointer => BAD_ARG; unknown request => UNIMPLEMENTED. Decoder init/get_size/create argument validation, allocation failure and no leak.',
   note='Trusted: one-line stub bodies for celt_encoder_ctl / celt_decoder_ctl and the sub-decoder size/init functions. Not built: multistream/projection ctl forwarding, encoder init/create, gen_toc and frame_size_select, settings honoured by later packets.'),
 'C12': dict(
   text='Decoder OPUS_RESET_STATE on an arbitrary state leaves every setting and makes the stream state equal to what opus_decoder_init gives; sub-states live at aligned, disjoint offsets (not pointers) inside opus_decoder_get_size() bytes.',
   note='PARTIAL: determinism and copyability over histories are two-run properties of the whole codec and are not applicable; encoder reset not built; the sub-state resets are stubs.'),
 'C13': dict(
   text='Loop-free lemmas over the whole float / int16 domain on the real conversion macros: the three encoder input views are bit-identical, RES2INT16 is saturate(round(2^15 x)), RES2INT24 is round(2^23 x).',
   note='PARTIAL: the wrapper loops (opus_encode*, opus_decode*, multistream copy functions) and "identical packets" are not built. float2int is verified in its C99 lrintf form (-U__SSE__).'),
 'C16': dict(
   text='skip_extension_payload and skip_extension contracts enforced for every length (lacing loop under a loop contract); generate->parse round trips, dry-run size, exact-size buffer, one-byte-short refusal and iterator/count/parse agreement are bounded stand-ins.',
   note='Quick: P for the two skip functions, B (n extensions x f frames, k arbitrary bytes) for the rest. The iterator representation invariant and repacketizer carriage are not built.'),
 'C17': dict(
   text='Finite-complete checks on the real tables and the real Laplace coder: all 37 ICDF tables strictly decreasing per sub-table and zero-terminated; PVQ table layout and recurrence without wrap; for all 168 (fs, decay) pairs and every code point the Laplace intervals tile [0,32768) and decode inverts encode.',
   note='cwrsi/icwrs bijection only as a small bounded check (thorough). Pulse-cache consistency with log2 V is not checkable (generator compiled only under CUSTOM_MODES). Laplace uses recording stubs for the three range-coder primitives.'),
 'C18': dict(
   text='silk_NLSF_stabilize / silk_NLSF_decode with the real codebook tables, silk_gains_dequant, silk_gains_quant+dequant agreement and silk_decode_pitch are proved for every index value the bitstream can carry (all loops constant-bounded by the codec order / sub-frame count, or under a loop contract).',
   note='Filter stability (silk_NLSF2A / silk_LPC_inverse_pred_gain) is not covered. Trusted: CBMC/DFCC/CaDiCaL, LP64.'),
 'C19': dict(
   text='opus_pcm_soft_clip: degenerate arguments (any N<1, C<1, null pointers) touch nothing (full domain); bit-exact pass-through of in-range input and memory safety on arbitrary non-NaN input are bounded stand-ins for small concrete (N, C).',
   note='PARTIAL: output in [-1,1], sign preservation and the decoder-gain clauses need non-linear float reasoning (a 1-sample range lemma with one float division times out): not applicable to this technique.'),
 'C20': dict(
   text='Exact transition function of decide_dtx_mode enforced as a contract; the 200 ms / 400 ms bounds and the in-DTX predicate follow from an inductive invariant over a ghost run length, so they hold for every call history.',
   note='Emission inside opus_encode_native (that the 1-byte packet is produced exactly when the automaton says so), the SILK noSpeechCounter path and decoder-side CNG are not covered.'),
}
_NR = 'not reached yet in this build-out (planned in DESIGN.md); no check is registered so nothing is claimed'
NOT_REACHED = {}
