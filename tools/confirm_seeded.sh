#!/bin/bash
# confirm_seeded.sh <worktree> <change_dir> : confirm a seeded change in a scratch worktree:
#  with the patch: builds, whole test suite passes, demo FAILS; without: demo passes.  Prints a JSON-ish summary.
wt=$1; ch=$2; cd $wt || exit 9
git checkout -q -- . ; git apply --check $ch/patch.diff || { echo "PATCH-DOES-NOT-APPLY"; exit 8; }
[ -f _build/build.ninja ] || cmake -G Ninja -B _build -DOPUS_BUILD_TESTING=ON -DOPUS_HARDENING=ON -DCMAKE_BUILD_TYPE=RelWithDebInfo >/dev/null
demo=$(ls $ch/demo_*.c | head -1)
CC="gcc -DHAVE_CONFIG_H -I _build -I include -I src -I celt -I silk -I silk/float"
git apply $ch/patch.diff && cmake --build _build >/dev/null 2>&1 || { echo "BUILD-FAILED-WITH-PATCH"; git checkout -q -- .; exit 7; }
tests=$(ctest --test-dir _build -j4 --timeout 900 2>&1 | grep "tests passed" )
$CC $demo _build/libopus.a -lm -o /tmp/demo_with.$$ 2>/dev/null; /tmp/demo_with.$$ >/tmp/demo_with.$$.out 2>&1; rc_with=$?
git checkout -q -- . ; cmake --build _build >/dev/null 2>&1
$CC $demo _build/libopus.a -lm -o /tmp/demo_without.$$ 2>/dev/null; /tmp/demo_without.$$ >/tmp/demo_without.$$.out 2>&1; rc_without=$?
echo "tests_with_patch: $tests"
echo "demo_rc_with_patch: $rc_with  ($(tail -1 /tmp/demo_with.$$.out | cut -c1-150))"
echo "demo_rc_without_patch: $rc_without"
rm -f /tmp/demo_with.$$* /tmp/demo_without.$$*
