#!/usr/bin/env python3
"""import_seed.py <worktree> <out-subdir> <PROP> <new-name> "<needs to manifest>"
Copies a sub-agent's change (patch.diff, demo_*.c, notes.txt) into seeded/<new-name>/, confirms it with
tools/confirm_seeded.sh in that worktree (build, whole ctest, demo with / without), and writes meta.json.
Nothing is kept unless the confirmation succeeds."""
import json, os, re, shutil, subprocess, sys
HERE = os.path.dirname(os.path.dirname(os.path.abspath(__file__)))
wt, sub, prop, name, needs = sys.argv[1:6]
src = os.path.join(wt, 'out', sub)
dst = os.path.join(HERE, 'seeded', name)
os.makedirs(dst, exist_ok=True)
for f in os.listdir(src):
    if f == 'patch.diff' or f.startswith('demo_') or f == 'notes.txt':
        shutil.copy(os.path.join(src, f), dst)
r = subprocess.run(['bash', os.path.join(HERE, 'tools', 'confirm_seeded.sh'), wt, dst], capture_output=True, text=True)
out = r.stdout + r.stderr
open(os.path.join(dst, 'confirm.txt'), 'w').write(out)
print(out[-800:])
ok = re.search(r'100% tests passed', out) and re.search(r'demo_rc_with_patch: (?!0\b)\d+', out) and re.search(r'demo_rc_without_patch: 0\b', out)
if not ok:
    print('NOT CONFIRMED: removing', dst); shutil.rmtree(dst); sys.exit(1)
m = re.search(r'tests_with_patch: (.*)', out)
json.dump({'property': prop, 'checks': [prop], 'needs_to_manifest': needs,
           'origin': 'independent sub-agent given only the property text and a scratch worktree (round 4)',
           'confirmed': 'tools/confirm_seeded.sh: with the patch the build succeeds, ctest: %s; the demo exits non-zero; without it the demo exits 0 (see confirm.txt)' % (m.group(1).strip() if m else '?')},
          open(os.path.join(dst, 'meta.json'), 'w'), indent=1)
print('CONFIRMED', name)
