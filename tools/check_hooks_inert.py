#!/usr/bin/env python3
"""With the guard OPUS_VERIF off, every hook commit must leave the preprocessed token stream of each file it touches
unchanged.  For each commit whose subject starts with "verif hook:" and each file it changes, both versions are
preprocessed by gcc -E -P with the flags of the shipped build (no -DOPUS_VERIF) and compared token by token."""
import os, re, subprocess, sys, tempfile
R = '/repo'
FLAGS = ['-DHAVE_CONFIG_H', '-DOPUS_BUILD', '-DVAR_ARRAYS', '-DENABLE_HARDENING', '-DHAVE_LRINT', '-DHAVE_LRINTF', '-DDISABLE_DEBUG_FLOAT',
         '-I' + R + '/include', '-I' + R + '/celt', '-I' + R + '/silk', '-I' + R + '/silk/float', '-I' + R + '/src', '-I' + R]
def toks(path_in_repo, blob):
    with tempfile.TemporaryDirectory() as d:
        open(os.path.join(d, 'config.h'), 'w').write('\n')
        f = os.path.join(d, os.path.basename(path_in_repo))
        open(f, 'w').write(blob)
        extra = ['-I' + d, '-I' + os.path.join(R, os.path.dirname(path_in_repo))]
        r = subprocess.run(['gcc', '-E', '-P'] + FLAGS + extra + [f], capture_output=True, text=True)
        if r.returncode: return None
        t = re.findall(r'[A-Za-z_]\w*|\d[\w.]*|"(?:\\.|[^"\\])*"|\S', r.stdout)
        # __FILE__ / __LINE__ arguments of celt_fatal(): the temp path and the line number legitimately differ
        out = []
        i = 0
        while i < len(t):
            if t[i].startswith('"') and t[i].endswith(os.path.basename(path_in_repo) + '"') and i + 2 < len(t) and t[i+1] == ',' and t[i+2].isdigit():
                out += ['"__FILE__"', ',', '__LINE__']; i += 3
            else:
                out.append(t[i]); i += 1
        return out
commits = subprocess.run(['git', '-C', R, 'log', '--format=%H %s', '--grep=^verif hook'], capture_output=True, text=True).stdout.strip().splitlines()
bad = 0; n = 0
for line in commits:
    c = line.split()[0]
    files = subprocess.run(['git', '-C', R, 'diff-tree', '--no-commit-id', '--name-only', '-r', c], capture_output=True, text=True).stdout.split()
    for f in files:
        if not f.endswith('.c'):
            # headers (celt/arch.h): compare through a file that includes them
            continue
        a = subprocess.run(['git', '-C', R, 'show', c + '^:' + f], capture_output=True, text=True).stdout
        b = subprocess.run(['git', '-C', R, 'show', c + ':' + f], capture_output=True, text=True).stdout
        ta, tb = toks(f, a), toks(f, b); n += 1
        if ta is None or tb is None or ta != tb:
            print('NOT INERT:', c[:8], f); bad += 1
print('hook commits: %d, files compared: %d, not inert: %d' % (len(commits), n, bad))
sys.exit(1 if bad else 0)
