#!/usr/bin/env python3
"""setup_cmd: verify the tools exist and the hook guard is inert when off."""
import os, shutil, subprocess, sys
HERE = os.path.dirname(os.path.dirname(os.path.abspath(__file__)))
def main():
    for t in ('cbmc', 'goto-cc', 'goto-instrument', 'gcc'):
        if not shutil.which(t):
            print('missing tool', t); return 1
    v = subprocess.run(['cbmc', '--version'], capture_output=True, text=True).stdout.strip()
    print('cbmc', v)
    os.makedirs(os.path.join(HERE, '.work'), exist_ok=True)
    os.makedirs(os.path.join(HERE, 'out', 'replay'), exist_ok=True)
    os.makedirs(os.path.join(HERE, 'evidence'), exist_ok=True)
    # hooks must be inert with the guard off: token-stream identity of every hooked file
    r = subprocess.run(['python3', os.path.join(HERE, 'tools', 'check_hooks_inert.py')], capture_output=True, text=True)
    print(r.stdout.strip())
    if r.returncode:
        print('hook inertness check failed'); return 1
    return 0
if __name__ == '__main__':
    sys.exit(main())
