#!/usr/bin/env python3
"""Rewrites the 'Seeded changes' table at the end of DESIGN.md from seeded/*/meta.json and result_*.json."""
import glob, json, os, re
HERE = os.path.dirname(os.path.dirname(os.path.abspath(__file__)))
rows = []
for d in sorted(glob.glob(os.path.join(HERE, 'seeded', '*'))):
    if not os.path.exists(os.path.join(d, 'meta.json')): continue
    m = json.load(open(os.path.join(d, 'meta.json')))
    name = os.path.basename(d)
    res = {}
    for tier in ('quick', 'thorough'):
        p = os.path.join(d, 'result_%s.json' % tier)
        if os.path.exists(p): res[tier] = json.load(open(p))
        elif tier == 'quick' and os.path.exists(os.path.join(d, 'result_quick_partial.json')): res[tier] = json.load(open(os.path.join(d, 'result_quick_partial.json')))
        elif tier == 'thorough' and os.path.exists(os.path.join(d, 'result_thorough_partial.json')): res[tier] = json.load(open(os.path.join(d, 'result_thorough_partial.json')))
    def cell(tier):
        r = res.get(tier)
        if not r: return 'not run'
        if r.get('detected'):
            obl = []
            for x in r['runs']:
                for v in x['violations']:
                    mm = re.search(r'replay=\S*/([^/\s]+)\.json', v)
                    if mm: obl.append(x['property'] + ':' + mm.group(1))
            return 'CAUGHT%s (%s)' % (' +native replay' if r.get('replayed_natively') else '', '; '.join(obl[:2]))
        und = any(x['exit'] == 2 for x in r['runs'])
        return 'undecided (exit 2)' if und else 'missed (exit 0)'
    why = m.get('why_missed', '') if not (res.get('quick') or {}).get('detected') else ''
    if 'thorough' in res and not (res.get('quick') or {}).get('detected'):
        why = ('thorough tier: ' + cell('thorough') + '. ' + why).strip()
    rows.append('| `%s` | %s | %s | %s | %s |' % (name, m['property'], m['needs_to_manifest'].replace('|', '/'), cell('quick'), why))
tbl = ['### 9.5 Seeded changes and which check catches them', '',
       'Every change below was written by an independent sub-agent that saw only the property text and a scratch worktree, and was confirmed with',
       '`tools/confirm_seeded.sh` (builds, the whole ctest suite passes with it, its demonstration fails with it and passes without it).',
       '`tools/run_seeded.py <name>` applies it in a scratch worktree and runs the property\'s quick check there (`VERIF_REPO`).', '',
       '| seeded change | property | needs, to manifest | quick check | if missed: why |', '|---|---|---|---|---|'] + rows + ['']
p = os.path.join(HERE, 'DESIGN.md')
s = open(p).read()
i = s.index('### 9.5 Seeded changes')
open(p, 'w').write(s[:i] + '\n'.join(tbl))
print(len(rows), 'rows')
