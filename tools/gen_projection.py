#!/usr/bin/env python3
"""gen_projection.py <outdir>: reads the { rows, cols, gain } headers of the ten ambisonics mapping matrices from
/repo/src/mapping_matrix.c and emits projection_gen.h with the linear value 10^(gain/5120) of each *stated* demixing
gain (S7.8 dB) as a double literal (CBMC has no pow()).  Must-fire: aborts if a header is not found."""
import os, re, sys
REPO = os.environ.get('VERIF_REPO', '/repo')
s = open(REPO + '/src/mapping_matrix.c').read()
out = []
for o in ('foa', 'soa', 'toa', 'fourthoa', 'fifthoa'):
    for kind in ('mixing', 'demixing'):
        m = re.search(r'const\s+MappingMatrix\s+mapping_matrix_%s_%s\s*=\s*\{\s*(\d+)\s*,\s*(\d+)\s*,\s*(-?\d+)\s*\}' % (o, kind), s)
        if not m:
            print('gen_projection: header of %s_%s not found' % (o, kind)); sys.exit(3)
        g = int(m.group(3))
        out.append('#define VERIF_GLIN_%s_%s %.17g   /* 10^(%d/5120) */' % (o, kind, 10.0 ** (g / 5120.0), g))
open(os.path.join(sys.argv[1], 'projection_gen.h'), 'w').write('\n'.join(out) + '\n')
