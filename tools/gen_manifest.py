#!/usr/bin/env python3
"""Regenerates /verif/MANIFEST.json from the per-property table below."""
import json, os, subprocess
HERE = os.path.dirname(os.path.dirname(os.path.abspath(__file__)))

NA_FIXED = {
 'C02': 'two-program, whole-history trace equivalence (encoder x this decoder x frozen reference decoder over all control histories): no per-function contract implies it; its contract-decidable fragments are claimed under C05/C06/C07/C08/C11',
 'C03': 'the oracle is a second implementation (RFC 6716 reference decoder, not in the image) plus a numeric tolerance on float DSP output; neither is expressible as a contract over these functions',
 'C04': 'SNR / band-energy fidelity of lossy float DSP (MDCT, PVQ, noise shaping) is outside what bit-precise SAT reasoning about floats can discharge (measured: a 1-sample soft-clip range lemma with one float division times out)',
 'C14': 'CBMC function contracts have no thread or happens-before semantics; "no global is written" is only a by-product of the assigns clauses of the functions under contract, not a library-wide fact',
 'C15': 'the SIMD kernels are written in __builtin_ia32_* intrinsics for which CBMC has no bodies; hand-modelling the ISA would verify a model, not the code',
}

# property -> dict(text, note, technique, design_ref); filled in as checks are built
CLAIMED = {}
NOT_REACHED = {}

def load():
    import importlib.util
    p = os.path.join(HERE, 'tools', 'manifest_table.py')
    spec = importlib.util.spec_from_file_location('manifest_table', p)
    m = importlib.util.module_from_spec(spec); spec.loader.exec_module(m)
    return m.CLAIMED, m.NOT_REACHED, m.HOOK_COMMITS

def technique_of(pid):
    """Names the deciding method per property from the group registry (classes as in DESIGN.md section 0)."""
    import importlib, sys, os
    sys.path.insert(0, os.path.dirname(os.path.dirname(os.path.abspath(__file__))))
    gs = importlib.import_module('proofs.reg_' + pid).GROUPS
    def count(tier, cls, dfcc=None):
        return sum(1 for g in gs if g.get('tier', 'quick') == tier and g['cls'] == cls and (dfcc is None or (g.get('dfcc', True) is not False) == dfcc))
    parts = []
    for tier in ('quick', 'thorough'):
        pe, ph, f, b = count(tier, 'P', True), count(tier, 'P', False), count(tier, 'F'), count(tier, 'B')
        if pe + ph + f + b == 0:
            continue
        parts.append('%s tier: %d group(s) enforce function/loop contracts on the real bodies through goto-instrument --dfcc (unbounded, modular: callees replaced by their contracts), '
                     '%d loop-free full-domain harness proof(s), %d finite-complete group(s) (every loop unwound to completion, unwinding assertions on), '
                     '%d bounded stand-in(s) (stated bounds, never counted as proved)' % (tier, pe, ph, f, b))
    return ('contract-based deductive verification of the real C code with CBMC 6.11.0 (contracts written on declarations, real .c files #included verbatim; SAT back end CaDiCaL); '
            + '; '.join(parts) + '; the deciding step is cbmc discharging every obligation generated from the current /repo sources; refuted obligations recorded on the unchanged tree are violations, '
            'with a bounded counterexample search replayed natively (gcc + ASan/UBSan) where the harness allows it')


def main():
    claimed, not_reached, hook_commits = load()
    checks = []
    for pid in sorted(claimed):
        c = claimed[pid]
        checks.append({
            'property_id': pid,
            'quick_cmd': 'python3 check.py %s --tier quick' % pid,
            'thorough_cmd': 'python3 check.py %s --tier thorough' % pid,
            'evidence_file': 'evidence/%s.json' % pid,
            'replay_cmd_template': 'python3 tools/replay.py {path}',
            'engine': 'cbmc-contracts',
            'level_claimed': {'category': c.get('category', 'proof'), 'text': c['text'], 'design_ref': c.get('design_ref', 'DESIGN.md section 4, ' + pid)},
            'level_note': c['note'],
            'technique': c.get('technique') or technique_of(pid),
        })
    na = []
    for pid in sorted(set(NA_FIXED) | set(not_reached)):
        if pid in claimed:
            continue
        na.append({'property_id': pid, 'reason': NA_FIXED.get(pid) or not_reached[pid]})
    man = {
        'version': 1,
        'setup_cmd': 'python3 tools/setup.py',
        'hooks': {
            'guard': 'OPUS_VERIF',
            'enable': 'proof translation units are compiled by goto-cc with -DOPUS_VERIF -I/verif/hooks -I<generated tags dir>; the real .c files are #included verbatim',
            'baseline_off_cmd': 'bash tools/baseline_off.sh',
            'source_commits': hook_commits,
            'add_only': False,
        },
        'engines': [{'name': 'cbmc-contracts', 'path': 'check.py', 'serves_properties': sorted(claimed),
                     'kind_free_text': 'contract-based deductive verification: CBMC 6.11 function and loop contracts (goto-instrument --dfcc) on the real sources, MiniSat back end; bounded stand-ins labelled class B'}],
        'checks': checks,
        'not_applicable': na,
        'notes': 'See DESIGN.md. exit 0 = all obligations discharged; exit 1 + VIOLATION = an obligation discharged on the unchanged tree is refuted; exit 2 = undecided (timeout, build error, void run) and never a violation.',
    }
    json.dump(man, open(os.path.join(HERE, 'MANIFEST.json'), 'w'), indent=1)
    try:
        import jsonschema
        jsonschema.validate(man, json.load(open('/root/.vp/MANIFEST.schema.json')))
        print('MANIFEST.json valid;', len(checks), 'checks,', len(na), 'not applicable')
    except ImportError:
        print('MANIFEST.json written (jsonschema not available)')

if __name__ == '__main__':
    main()
