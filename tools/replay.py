#!/usr/bin/env python3
"""replay.py <replay.json>: re-run a recorded violation against the CURRENT /repo working tree.

A replay file (out/replay/<PROP>/<group>.<obligation>.json, written by check.py) names the refuted obligation and carries the
verifier's trace; where the harness allowed it, it also names the input file of a native reproduction.
 1. If a native reproduction was recorded: rebuild the same harness natively (gcc -fsanitize=address,undefined, real sources,
    hooks off) and run it on the recorded inputs.  Exit 1 if the violation reproduces, 0 if it does not.
 2. Otherwise: re-run the group the obligation belongs to with cbmc and report whether that obligation is still refuted.
    Exit 1 if it is, 0 if it is discharged, 2 if undecided."""
import json, os, subprocess, sys
HERE = os.path.dirname(os.path.dirname(os.path.abspath(__file__)))
sys.path.insert(0, HERE)

def main():
    if len(sys.argv) != 2:
        print(__doc__); return 2
    rep = json.load(open(sys.argv[1]))
    prop, group, ob = rep['property'], rep['group'], rep['failed_obligation']
    print('property %s, group %s' % (prop, group))
    print('refuted obligation: %s [%s] %s (%s:%s)' % (ob['id'], ob['kind'], ob['description'], ob.get('file'), ob.get('line')))
    nat = rep.get('native_replay') or {}
    if nat.get('reproduced') and nat.get('native_cmd') and nat.get('inputs_file') and os.path.exists(nat['inputs_file']):
        from vlib import pipeline
        import importlib
        g = [x for x in importlib.import_module('proofs.reg_' + prop).GROUPS if x['name'] == group]
        if g:
            g = g[0]; g.setdefault('prop', prop)
            wd = os.path.join(pipeline.WORK, prop, group, 'replay'); os.makedirs(wd, exist_ok=True)
            gen = os.path.join(wd, 'gen'); pipeline.make_gen(gen)
            for pg in g.get('pregen', []):
                pipeline.run(['python3', os.path.join(HERE, pg), gen], 120)
            tu, entry = nat['cex_harness'].split(':')
            src = pipeline.localized_tu(tu, wd)
            wrap = os.path.join(wd, 'native_main.c')
            open(wrap, 'w').write('#define VERIF_NATIVE 1\n#include "%s"\nint main(int argc, char **argv) { if (argc > 1) verif_load(argv[1]); %s(); printf("NATIVE-OK\\n"); return 0; }\n' % (src, entry))
            exe = os.path.join(wd, 'native_replay')
            defs = [d for d in pipeline.BASE_DEFS if d != '-DOPUS_VERIF'] + list(g.get('defines', [])) + ['-DVERIF_CEX_SEARCH']
            cmd = ['gcc', '-O1', '-g', '-w', '-fsanitize=address,undefined', '-fno-sanitize-recover=all', '-std=gnu99', '-ffunction-sections', '-fdata-sections', '-Wl,--gc-sections'] + defs + pipeline.incs(gen) + [wrap, '-o', exe, '-lm']
            rc, txt, _ = pipeline.run(cmd, 300, 16)
            if rc != 0:
                print('native build failed:\n' + txt[-800:]); return 2
            p = subprocess.run([exe, nat['inputs_file']], capture_output=True, text=True, timeout=120, env=dict(os.environ, ASAN_OPTIONS='detect_leaks=0'))
            out = (p.stdout + p.stderr)[-1500:]
            print('native run (inputs %s): exit %d\n%s' % (nat['inputs_file'], p.returncode, out))
            bad = p.returncode not in (0, 77) and ('NATIVE-VIOLATION' in out or 'Sanitizer' in out or 'runtime error' in out)
            print('REPRODUCED on the current tree' if bad else 'does not reproduce on the current tree')
            return 1 if bad else 0
    # verifier re-run of the group
    print('no native reproduction recorded: re-running the group with the verifier')
    p = subprocess.run(['python3', os.path.join(HERE, 'check.py'), prop, '--group', group, '--no-evidence', '--keep'], capture_output=True, text=True, cwd=HERE)
    print(p.stdout[-3000:])
    wd = None
    try:
        from vlib import pipeline
        d = json.load(open(os.path.join(pipeline.WORK, prop, group, 'cbmc.json')))
        for it in d:
            if isinstance(it, dict) and 'result' in it:
                for r in it['result']:
                    if r.get('property') == ob['id'] or r.get('description') == ob['description']:
                        print('obligation now: %s' % r['status'])
                        return 1 if r['status'] == 'FAILURE' else 0 if r['status'] == 'SUCCESS' else 2
    except Exception as e:
        print('could not read the verifier result: %r' % e)
    return 2

if __name__ == '__main__':
    sys.exit(main())
