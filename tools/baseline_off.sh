#!/bin/bash
# Rebuilds /repo without -DOPUS_VERIF (the guard is off in the shipped build) and runs the pinned suite.
set -e
cd /repo
if [ ! -f _build/build.ninja ]; then cmake -G Ninja -B _build -DOPUS_BUILD_TESTING=ON >/dev/null; fi
cmake --build _build >/dev/null
ctest --test-dir _build -j8 --timeout 900
