#!/usr/bin/env python3
"""run_seeded.py <seeded-name> [--tier quick|thorough] [--props C06,C07] [--group G ...]
Applies seeded/<name>/patch.diff in a scratch worktree of /repo (never in /repo itself), points the checks at it
(VERIF_REPO), runs them with a private work directory, records exit codes and VIOLATION lines in
seeded/<name>/result.json, and removes the worktree."""
import argparse, json, os, subprocess, sys, shutil, time
HERE = os.path.dirname(os.path.dirname(os.path.abspath(__file__)))
ap = argparse.ArgumentParser(); ap.add_argument('name'); ap.add_argument('--tier', default='quick'); ap.add_argument('--props'); ap.add_argument('--group', action='append'); ap.add_argument('--jobs', default='6')
a = ap.parse_args()
d = os.path.join(HERE, 'seeded', a.name)
meta = json.load(open(os.path.join(d, 'meta.json')))
props = a.props.split(',') if a.props else meta.get('checks', [meta['property']])
wt = '/tmp/seedwt_' + a.name; vw = '/tmp/seedwork_' + a.name
subprocess.run(['git', '-C', '/repo', 'worktree', 'remove', '--force', wt], capture_output=True)
shutil.rmtree(vw, ignore_errors=True)
r = subprocess.run(['git', '-C', '/repo', 'worktree', 'add', '-q', '--detach', wt, 'HEAD'], capture_output=True, text=True)
if r.returncode: print(r.stderr); sys.exit(3)
try:
    r = subprocess.run(['git', '-C', wt, 'apply', os.path.join(d, 'patch.diff')], capture_output=True, text=True)
    if r.returncode: print('patch does not apply:', r.stderr); sys.exit(3)
    res = {'tier': a.tier, 'at': time.strftime('%Y-%m-%dT%H:%M:%SZ', time.gmtime()), 'runs': []}
    for p in props:
        cmd = ['python3', os.path.join(HERE, 'check.py'), p, '--tier', a.tier, '--no-evidence', '--jobs', a.jobs]
        for g in a.group or []: cmd += ['--group', g]
        t0 = time.time()
        pr = subprocess.run(cmd, capture_output=True, text=True, cwd=HERE, env=dict(os.environ, VERIF_REPO=wt, VERIF_WORK=vw))
        out = pr.stdout
        vio = [l for l in out.splitlines() if l.startswith('VIOLATION')]
        und = [l[:200] for l in out.splitlines() if l.startswith('UNDECIDED')][:6]
        res['runs'].append({'property': p, 'cmd': ' '.join(cmd[2:]), 'exit': pr.returncode, 'violations': vio, 'undecided': und, 'wall_s': round(time.time() - t0)})
        print(p, 'exit', pr.returncode, vio[:3], und[:2])
    res['detected'] = any(x['exit'] == 1 for x in res['runs'])
    res['replayed_natively'] = any(('no-failing-input-found' not in v) for x in res['runs'] for v in x['violations'])
    key = 'result_%s.json' % a.tier if not a.group else 'result_%s_partial.json' % a.tier
    json.dump(res, open(os.path.join(d, key), 'w'), indent=1)
finally:
    subprocess.run(['git', '-C', '/repo', 'worktree', 'remove', '--force', wt], capture_output=True)
    shutil.rmtree(vw, ignore_errors=True)
