#!/usr/bin/env python3
"""rg.py PROP GROUP [--keep] : run one registered group and print failures (development aid)."""
import sys, json
sys.path.insert(0,'/verif')
from vlib import pipeline
import importlib
prop, name = sys.argv[1], sys.argv[2]
mod = importlib.import_module('proofs.reg_'+prop)
g = [x for x in mod.GROUPS if x['name']==name][0]
g.setdefault('prop', prop)
for a in sys.argv[3:]:
    if a.startswith('timeout='): g['timeout']=int(a.split('=')[1])
r = pipeline.run_group(g, keep=True)
print(r['status'], r['detail'][-3000:], 'solver_s=',r['solver_s'], 'wall=',r['wall_s'])
for o in r['obligations']:
    if o['status']!='SUCCESS': print(o['status'], o['id'], '|', o['desc'], '|', o['file'], o['line'])
print(len(r['obligations']), 'obligations;', [(c['desc'],c['status']) for c in r['canaries']])
print('canary_s', r.get('canary_s'), r.get('canary_mode'))
print('unwound:', r['unwind_bounds'], 'nobody:', r.get('no_body'))
