/* Verification hooks for xiph/opus (guard: OPUS_VERIF).
 *
 * OPUS_VERIF_LOOP(tag) sits right after a loop head in the real source;
 * OPUS_VERIF_GHOST(tag) sits where a ghost statement may be needed.  Both expand, by
 * token pasting, to OPUS_VERIF_LOOP_<tag> / OPUS_VERIF_GHOST_<tag>.  A proof
 * translation unit that wants a contract on a loop writes
 *     #undef  OPUS_VERIF_LOOP_<tag>
 *     #define OPUS_VERIF_LOOP_<tag>  __CPROVER_assigns(...) __CPROVER_loop_invariant(...) ...
 * before it includes the real .c file.  Every tag found in /repo gets an empty
 * default from opus_verif_tags.h, which the driver regenerates from /repo on every
 * run (so an unknown tag is a compile error and a tag that a proof defines but
 * /repo no longer contains voids the run).  Ghost statements assign only ghost
 * variables declared in /verif.
 */
#ifndef OPUS_VERIF_HOOKS_H
#define OPUS_VERIF_HOOKS_H
#define OPUS_VERIF_LOOP(tag)  OPUS_VERIF_LOOP_##tag
#define OPUS_VERIF_GHOST(tag) OPUS_VERIF_GHOST_##tag
#include "opus_verif_tags.h"
#endif
